"""Path enumeration over abstract events (DESIGN 3.3-3.5).

A syntax-directed abstract interpreter: it walks the statements of one function, keeps a
symbolic *normal form* for every local (reaching definitions substituted, tuple unpacking as
projections, closure variables as roles), emits *events* for operations on role objects (the
model decides which) and forks on every branch, loop count and typed exception edge.  No klepto
code is executed and no solver is involved: values are uninterpreted terms compared
structurally; the only reasoning is Python's control flow and handler matching.
"""
import ast
import builtins
import itertools

from .src import AnalysisError, unparse

NEXT, RETURN, RAISE, BREAK, CONTINUE = 'next', 'return', 'raise', 'break', 'continue'

# ---------------------------------------------------------------------------------------------
# exception tokens: concrete builtin classes, plus two synthetic ones
#   'GenericException' : some Exception subclass no handler names (matches Exception/BaseException/bare)
#   'BaseOnly'         : BaseException that is not an Exception (KeyboardInterrupt, SystemExit)
GENERIC = 'GenericException'
BASEONLY = 'BaseOnly'


def token_matches(token, hnames):
    """does an exception of class `token` match a handler naming classes `hnames` (None = bare)"""
    if hnames is None:
        return True
    for h in hnames:
        if h == 'BaseException':
            return True
        if token == BASEONLY:
            continue
        if h == 'Exception':
            return True
        if token == GENERIC:
            continue
        tc = getattr(builtins, token, None)
        hc = getattr(builtins, h, None)
        if isinstance(tc, type) and isinstance(hc, type) and issubclass(tc, hc):
            return True
        if h == token:
            return True
    return False


class Event(object):
    __slots__ = ('kind', 'args', 'line', 'loop', 'val', 'depth', 'extra')

    def __init__(self, kind, args=(), line=0, loop=0, val=None, depth=0, extra=None):
        self.kind = kind
        self.args = args
        self.line = line
        self.loop = loop
        self.val = val
        self.depth = depth
        self.extra = extra

    def __repr__(self):
        return '%s(%s)@%d' % (self.kind, ', '.join(render(a) for a in self.args), self.line)


class St(object):
    """path state; copied on fork"""
    __slots__ = ('env', 'events', 'facts', 'depth', 'curexc', 'loops', 'zero', 'frames')

    def __init__(self, env=None, events=(), facts=None, depth=0, curexc=None, loops=0, zero=(), frames=()):
        self.env = env if env is not None else {}
        self.events = events
        self.facts = facts if facts is not None else {}
        self.depth = depth
        self.curexc = curexc
        self.loops = loops      # >0 while inside a loop body (events get loop flag)
        self.zero = zero        # lines of loops that ran zero times on this path
        self.frames = frames    # inline frames (callee qualnames)

    def fork(self):
        return St(dict(self.env), self.events, _copyfacts(self.facts), self.depth, self.curexc,
                  self.loops, self.zero, self.frames)

    def emit(self, kind, args=(), line=0, val=None, extra=None):
        ev = Event(kind, tuple(args), line, self.loops, val, self.depth, extra)
        self.events = self.events + (ev,)
        return ev


def _copyfacts(f):
    out = {}
    for k, v in f.items():
        if isinstance(v, dict):
            out[k] = dict(v)
        elif isinstance(v, set):
            out[k] = set(v)
        elif isinstance(v, list):
            out[k] = list(v)
        else:
            out[k] = v
    return out


class Out(object):
    __slots__ = ('kind', 'st', 'val', 'exc', 'line')

    def __init__(self, kind, st, val=None, exc=None, line=0):
        self.kind = kind
        self.st = st
        self.val = val
        self.exc = exc
        self.line = line


class R(object):
    """expression result: normal (exc None) or raised"""
    __slots__ = ('st', 'val', 'exc', 'line')

    def __init__(self, st, val=None, exc=None, line=0):
        self.st = st
        self.val = val
        self.exc = exc
        self.line = line


# ---------------------------------------------------------------------------------------------
# symbolic values are nested tuples; first element is the tag

def C(v):
    return ('const', v)


NONE = C(None)


def is_const(v):
    return isinstance(v, tuple) and len(v) == 2 and v[0] == 'const'


ABBREV = {}


def render(v, depth=0):
    """human readable rendering of a symbolic value"""
    if not isinstance(v, tuple) or not v:
        return repr(v)
    if v in ABBREV:
        return ABBREV[v]
    t = v[0]
    if depth > 8:
        return '...'
    d = depth + 1
    if t == 'const':
        return repr(v[1])
    if t == 'role':
        return v[1]
    if t == 'param':
        return v[1]
    if t == 'lib':
        return v[1]
    if t == 'bk':
        return v[1]
    if t == 'opaque':
        return '<%s>' % v[1]
    if t == 'bound':
        return '%s.%s' % (render(v[1], d), v[2])
    if t == 'attr':
        return '%s.%s' % (render(v[1], d), v[2])
    if t == 'sub':
        return '%s[%s]' % (render(v[1], d), render(v[2], d))
    if t == 'proj':
        return 'π%d(%s)' % (v[1], render(v[2], d))
    if t == 'star':
        return '*' + render(v[1], d)
    if t == 'dstar':
        return '**' + render(v[1], d)
    if t == 'kw':
        return '%s=%s' % (v[1], render(v[2], d))
    if t == 'call':
        parts = [render(a, d) for a in v[2]] + [render(k, d) for k in v[3]]
        return '%s(%s)' % (render(v[1], d), ', '.join(parts))
    if t in ('tuple', 'list', 'set'):
        o, c = {'tuple': '()', 'list': '[]', 'set': '{}'}[t]
        return o + ', '.join(render(a, d) for a in v[1]) + c
    if t == 'dict':
        return '{' + ', '.join('%s: %s' % (render(a, d), render(b, d)) if a is not None else render(b, d)
                               for a, b in v[1]) + '}'
    if t == 'bin':
        return '(%s %s %s)' % (render(v[2], d), v[1], render(v[3], d))
    if t == 'cmp':
        return '(%s %s %s)' % (render(v[2], d), v[1], render(v[3], d))
    if t == 'not':
        return 'not ' + render(v[1], d)
    if t == 'iter':
        return 'each(%s)#%s' % (render(v[1], d), v[2])
    if t == 'ev':
        return '%s#%s' % (v[1], v[2])
    if t == 'closure':
        return 'closure:%s' % v[1]
    if t == 'self':
        return 'self'
    if t == 'phi':
        return 'φ(' + ' | '.join(render(a, d) for a in v[1]) + ')'
    return '%s(%s)' % (t, ', '.join(render(a, d) if isinstance(a, tuple) else repr(a) for a in v[1:]))


def subterms(v):
    """all tuple sub-terms of a symbolic value (including itself)"""
    stack = [v]
    while stack:
        x = stack.pop()
        if isinstance(x, tuple):
            if x and isinstance(x[0], str):
                yield x
            for y in x:
                if isinstance(y, tuple):
                    stack.append(y)


def contains_term(v, pred):
    for t in subterms(v):
        if pred(t):
            return True
    return False


MUTATORS = ('update', 'append', 'extend', 'pop', 'popitem', '__delitem__', '__setitem__', 'clear', 'insert', 'remove',
            'add', 'discard', 'setdefault', 'sort', 'reverse')

def empty_literal(v):
    if not isinstance(v, tuple) or not v:
        return False
    if v[0] in ('dict', 'tuple', 'list', 'set') and not v[1]:
        return True
    if v[0] in ('star', 'dstar'):
        return empty_literal(v[1])
    if v[0] == 'call' and v[1][0] == 'attr' and v[1][2] in ('items', 'keys', 'values', 'copy') and not v[2]:
        return empty_literal(v[1][1])
    if v[0] == 'call' and v[1][0] == 'lib' and v[1][1] in ('list', 'tuple', 'dict', 'iter', 'sorted', 'set') and len(v[2]) == 1 and not v[3]:
        return empty_literal(v[2][0])
    return False


BINOPS = {ast.Add: '+', ast.Sub: '-', ast.Mult: '*', ast.Div: '/', ast.FloorDiv: '//', ast.Mod: '%',
          ast.Pow: '**', ast.BitOr: '|', ast.BitAnd: '&', ast.BitXor: '^', ast.LShift: '<<',
          ast.RShift: '>>', ast.MatMult: '@'}
CMPOPS = {ast.Eq: '==', ast.NotEq: '!=', ast.Lt: '<', ast.LtE: '<=', ast.Gt: '>', ast.GtE: '>=',
          ast.Is: 'is', ast.IsNot: 'is not', ast.In: 'in', ast.NotIn: 'not in'}


class Model(object):
    """semantic hooks; subclasses turn operations on role objects into events"""

    def __init__(self):
        self.engine = None

    # each hook returns None (not handled -> default) or a list of R
    def call(self, f, args, kws, st, node):
        return None

    def attr_load(self, obj, attr, st, node):
        return None

    def attr_store(self, obj, attr, val, st, node):
        return None

    def sub_load(self, obj, idx, st, node):
        return None

    def sub_store(self, obj, idx, val, st, node):
        return None

    def sub_del(self, obj, idx, st, node):
        return None

    def sub_aug(self, obj, idx, op, val, st, node):
        return None

    def contains(self, item, container, st, node):
        return None

    def truth(self, val, st, node):
        """return None or list of (st, bool)"""
        return None

    def iterate(self, itval, st, node):
        """called once per loop before unrolling; may return a per-iteration hook"""
        return None

    def global_name(self, name, st):
        return None

    def with_exit(self, val, st, node):
        """called when a `with` block whose context manager evaluated to val is left (may emit events)"""
        return None

    def exc_tokens_any(self):
        return ['KeyError', 'TypeError', GENERIC, BASEONLY]

    def literal(self, v, st, node):
        return None

    def escape(self, f, vals, st, node):
        """a role object is passed to an unknown callee"""
        return None


def is_contextmanager(fnode):
    for d in getattr(fnode, 'decorator_list', []):
        nm = d.attr if isinstance(d, ast.Attribute) else d.id if isinstance(d, ast.Name) else ''
        if nm == 'contextmanager':
            return True
    return False


class Engine(object):
    def __init__(self, model, unroll=2, max_paths=200000, max_depth=4, comp_unroll=1):
        self.model = model
        model.engine = self
        self.unroll = unroll
        self.comp_unroll = comp_unroll
        self.max_paths = max_paths
        self.max_depth = max_depth
        self.uid = itertools.count(1)
        self.npaths = 0
        self.notes = []
        self._closures = {}
        self._cmgens = {}          # generator-based context managers waiting for their `with` (id -> (fnode, callee env, label))
        self._pending_defaults = []
        self.collapse_pure = False

    # ------------------------------------------------------------------ entry
    def run_function(self, fnode, env, params=None, facts=None):
        """enumerate all paths through function `fnode`; env = closure environment.
        returns list of Out with kind RETURN or RAISE"""
        st = St(env=dict(env), facts=dict(facts or {}))
        self._bind_params_symbolic(fnode, st, params)
        outs = self.exec_block(fnode.body, st)
        res = []
        for o in outs:
            if o.kind == NEXT:
                res.append(Out(RETURN, o.st, NONE, line=getattr(fnode, 'end_lineno', 0)))
            elif o.kind in (RETURN, RAISE):
                res.append(o)
            else:
                raise AnalysisError('break/continue escaped function %s' % fnode.name)
        self.npaths += len(res)
        return res

    def _bind_params_symbolic(self, fnode, st, params):
        a = fnode.args
        params = params or {}
        names = [x.arg for x in getattr(a, 'posonlyargs', [])] + [x.arg for x in a.args]
        defaults = [None] * (len(names) - len(a.defaults)) + list(a.defaults)
        for n, d in zip(names, defaults):
            if n in params:
                st.env[n] = params[n]
            else:
                st.env[n] = ('param', n)
        if a.vararg:
            st.env[a.vararg.arg] = params.get(a.vararg.arg, ('param', a.vararg.arg))
        for x in a.kwonlyargs:
            st.env[x.arg] = params.get(x.arg, ('param', x.arg))
        if a.kwarg:
            st.env[a.kwarg.arg] = params.get(a.kwarg.arg, ('param', a.kwarg.arg))

    # ------------------------------------------------------------------ statements
    def exec_block(self, stmts, st):
        live = [st]
        done = []
        for s in stmts:
            nxt = []
            for cur in live:
                for o in self.exec_stmt(s, cur):
                    if o.kind == NEXT:
                        nxt.append(o.st)
                    else:
                        done.append(o)
            live = nxt
            if len(live) + len(done) > self.max_paths:
                raise AnalysisError('path explosion (> %d) at line %d' % (self.max_paths, s.lineno))
            if not live:
                break
        return done + [Out(NEXT, x) for x in live]

    def _from_results(self, results, then):
        """results: list of R; then(st, val) -> list of Out for normal ones"""
        outs = []
        for r in results:
            if r.exc is not None:
                outs.append(Out(RAISE, r.st, exc=r.exc, line=r.line))
            else:
                outs.extend(then(r.st, r.val))
        return outs

    def exec_stmt(self, s, st):
        m = getattr(self, 'st_' + type(s).__name__, None)
        if m is None:
            raise AnalysisError('unmodelled statement kind %s at line %d' % (type(s).__name__, s.lineno))
        return m(s, st)

    def st_Expr(self, s, st):
        return self._from_results(self.ev(s.value, st), lambda st2, v: [Out(NEXT, st2)])

    def st_Pass(self, s, st):
        return [Out(NEXT, st)]

    def st_Global(self, s, st):
        return [Out(NEXT, st)]

    st_Nonlocal = st_Global

    def st_Import(self, s, st):
        for a in s.names:
            st.env[a.asname or a.name.split('.')[0]] = ('lib', a.name if a.asname else a.name.split('.')[0])
        return [Out(NEXT, st)]

    def st_ImportFrom(self, s, st):
        mod = ('.' * s.level) + (s.module or '')
        for a in s.names:
            st.env[a.asname or a.name] = ('lib', ('%s.%s' % (mod, a.name)) if s.module else mod + a.name)
        return [Out(NEXT, st)]

    def st_FunctionDef(self, s, st):
        self._closures[id(s)] = (s, st.env)       # the defining environment (of the path that reached the definition last)
        val = ('closure', s.name, id(s))
        if not s.decorator_list:
            st.env[s.name] = val
            return [Out(NEXT, st)]
        # decorators are applied bottom-up: name = d1(d2(f))
        results = [R(st, val)]
        for dn in reversed(s.decorator_list):
            nxt = []
            for r in results:
                if r.exc is not None:
                    nxt.append(r)
                    continue
                for rd in self.ev(dn, r.st):
                    if rd.exc is not None:
                        nxt.append(rd)
                    else:
                        nxt.extend(self.call(rd.val, (r.val,), (), rd.st, dn))
            results = nxt

        def then(st2, v):
            st2.env[s.name] = v
            return [Out(NEXT, st2)]
        return self._from_results(results, then)

    def st_ClassDef(self, s, st):
        st.env[s.name] = ('opaque', 'class:' + s.name)
        return [Out(NEXT, st)]

    def st_Return(self, s, st):
        if s.value is None:
            return [Out(RETURN, st, NONE, line=s.lineno)]
        return self._from_results(self.ev(s.value, st), lambda st2, v: [Out(RETURN, st2, v, line=s.lineno)])

    def st_Break(self, s, st):
        return [Out(BREAK, st)]

    def st_Continue(self, s, st):
        return [Out(CONTINUE, st)]

    def st_Raise(self, s, st):
        if s.exc is None:
            tok = st.curexc or GENERIC
            st.emit('RAISE', (C(tok),), s.lineno)
            return [Out(RAISE, st, exc=tok, line=s.lineno)]

        def then(st2, v):
            tok = self.exc_token_of(v)
            st2.emit('RAISE', (C(tok),), s.lineno)
            return [Out(RAISE, st2, exc=tok, line=s.lineno)]
        return self._from_results(self.ev(s.exc, st), then)

    def exc_token_of(self, v):
        # raise X(...) or raise X
        if v[0] == 'call':
            v = v[1]
        if v[0] == 'lib':
            name = v[1].split('.')[-1]
            if isinstance(getattr(builtins, name, None), type):
                return name
        return GENERIC

    def st_Assign(self, s, st):
        def then(st2, v):
            outs = [Out(NEXT, st2)]
            for t in s.targets:
                nxt = []
                for o in outs:
                    if o.kind == NEXT:
                        nxt.extend(self.assign(t, v, o.st))
                    else:
                        nxt.append(o)
                outs = nxt
            return outs
        return self._from_results(self.ev(s.value, st), then)

    def st_AnnAssign(self, s, st):
        if s.value is None:
            return [Out(NEXT, st)]
        return self._from_results(self.ev(s.value, st), lambda st2, v: self.assign(s.target, v, st2))

    def st_AugAssign(self, s, st):
        op = BINOPS.get(type(s.op), '?')
        t = s.target
        if isinstance(t, ast.Name):
            def then(st2, v):
                old = self.lookup(t.id, st2)
                st2.env[t.id] = self.binop(op, old, v)
                return [Out(NEXT, st2)]
            return self._from_results(self.ev(s.value, st), then)
        if isinstance(t, ast.Subscript):
            def then_obj(st2, obj):
                def then_idx(st3, idx):
                    def then_val(st4, v):
                        h = self.model.sub_aug(obj, idx, op, v, st4, s)
                        if h is not None:
                            return self._from_results(h, lambda st5, _v: [Out(NEXT, st5)])
                        # default: load, op, store
                        def after_load(st5, old):
                            return self._from_results(
                                self.sub_store(obj, idx, self.binop(op, old, v), st5, s),
                                lambda st6, _v: [Out(NEXT, st6)])
                        return self._from_results(self.sub_load(obj, idx, st4, s), after_load)
                    return self._from_results(self.ev(s.value, st3), then_val)
                return self._from_results(self.ev_index(t.slice, st2), then_idx)
            return self._from_results(self.ev(t.value, st), then_obj)
        if isinstance(t, ast.Attribute):
            def then_obj(st2, obj):
                def then_val(st3, v):
                    old = ('attr', obj, t.attr)
                    return self._from_results(self.attr_store(obj, t.attr, self.binop(op, old, v), st3, s),
                                              lambda st4, _v: [Out(NEXT, st4)])
                return self._from_results(self.ev(s.value, st2), then_val)
            return self._from_results(self.ev(t.value, st), then_obj)
        raise AnalysisError('unmodelled augmented assignment target at line %d' % s.lineno)

    def st_Delete(self, s, st):
        outs = [Out(NEXT, st)]
        for t in s.targets:
            nxt = []
            for o in outs:
                if o.kind != NEXT:
                    nxt.append(o)
                    continue
                if isinstance(t, ast.Name):
                    o.st.env.pop(t.id, None)
                    nxt.append(o)
                elif isinstance(t, ast.Subscript):
                    def then_obj(st2, obj, t=t):
                        def then_idx(st3, idx):
                            h = self.model.sub_del(obj, idx, st3, s)
                            if h is None:
                                st3.emit('DELITEM', (obj, idx), s.lineno)
                                h = [R(st3, NONE)]
                            return self._from_results(h, lambda st4, _v: [Out(NEXT, st4)])
                        return self._from_results(self.ev_index(t.slice, st2), then_idx)
                    nxt.extend(self._from_results(self.ev(t.value, o.st), then_obj))
                elif isinstance(t, ast.Attribute):
                    nxt.append(o)
                else:
                    raise AnalysisError('unmodelled del target at line %d' % s.lineno)
            outs = nxt
        return outs

    def st_If(self, s, st):
        outs = []
        for r in self.ev(s.test, st):
            if r.exc is not None:
                outs.append(Out(RAISE, r.st, exc=r.exc, line=r.line))
                continue
            for st2, b in self.branch(r.val, r.st, s.test):
                outs.extend(self.exec_block(s.body if b else s.orelse, st2))
        return outs

    def st_Assert(self, s, st):
        outs = []
        for r in self.ev(s.test, st):
            if r.exc is not None:
                outs.append(Out(RAISE, r.st, exc=r.exc, line=r.line))
                continue
            for st2, b in self.branch(r.val, r.st, s.test):
                if b:
                    outs.append(Out(NEXT, st2))
                else:
                    outs.append(Out(RAISE, st2, exc='AssertionError', line=s.lineno))
        return outs

    def st_While(self, s, st):
        outs = []
        live = [st]
        for i in range(self.unroll + 1):
            nxt = []
            for cur in live:
                for r in self.ev(s.test, cur):
                    if r.exc is not None:
                        outs.append(Out(RAISE, r.st, exc=r.exc, line=r.line))
                        continue
                    for st2, b in self.branch(r.val, r.st, s.test):
                        if not b:
                            if i == 0:
                                st2.zero = st2.zero + (s.lineno,)
                            outs.extend(self.exec_block(s.orelse, st2) if s.orelse else [Out(NEXT, st2)])
                            continue
                        if i == self.unroll:
                            # bound reached: path is cut here (recorded, not followed)
                            self.notes.append('loop at line %d cut after %d iterations' % (s.lineno, i))
                            continue
                        st2.loops += 1
                        for o in self.exec_block(s.body, st2):
                            if o.kind in (NEXT, CONTINUE):
                                o.st.loops -= 1
                                nxt.append(o.st)
                            elif o.kind == BREAK:
                                o.st.loops -= 1
                                outs.append(Out(NEXT, o.st))
                            else:
                                o.st.loops -= 1
                                outs.append(o)
            live = nxt
            if not live:
                break
        return outs

    def st_For(self, s, st):
        outs = []
        for r in self.ev(s.iter, st):
            if r.exc is not None:
                outs.append(Out(RAISE, r.st, exc=r.exc, line=r.line))
                continue
            outs.extend(self.loop_over(r.val, r.st, s.target, s.body, s.orelse, s, self.unroll))
        return outs

    def loop_over(self, itval, st, target, body, orelse, node, unroll, body_fn=None):
        """unroll a for-loop 0..unroll times.  body_fn(st) -> list of Out replaces body when given"""
        outs = []
        hook = self.model.iterate(itval, st, node)
        known_nonempty = bool(hook and hook.get('nonempty'))
        known_empty = False
        if itval[0] in ('tuple', 'list') and not any(x[0] == 'star' for x in itval[1]) and hook is None:
            return self._loop_exact(itval[1], st, target, body, orelse, node, body_fn)
        if hook is None and itval[0] == 'call' and itval[1] == ('lib', 'zip') and not itval[3] and itval[2] \
                and all(a[0] in ('tuple', 'list') and not any(x[0] == 'star' for x in a[1]) for a in itval[2]):
            # zip of literal sequences (a table of names driving a loop): exactly the pairs
            n = min(len(a[1]) for a in itval[2])
            elems = tuple(('tuple', tuple(a[1][i] for a in itval[2])) for i in range(n))
            return self._loop_exact(elems, st, target, body, orelse, node, body_fn)
        if hook is None and itval[0] == 'call' and itval[1] == ('lib', 'enumerate') and len(itval[2]) == 1 and not itval[3] \
                and itval[2][0][0] in ('tuple', 'list') and not any(x[0] == 'star' for x in itval[2][0][1]):
            elems = tuple(('tuple', (C(i), x)) for i, x in enumerate(itval[2][0][1]))
            return self._loop_exact(elems, st, target, body, orelse, node, body_fn)
        tr = st.facts.get('truth', {}).get(itval)
        if tr is None and itval[0] == 'call' and itval[1][0] == 'lib' and itval[1][1] in ('enumerate', 'iter', 'list', 'tuple', 'reversed', 'sorted') \
                and len(itval[2]) == 1 and not itval[3]:
            # enumerate(x) / list(x) ... are empty exactly when x is
            inner = itval[2][0]
            tr2 = st.facts.get('truth', {}).get(inner)
            if tr2 is True:
                known_nonempty = True
            elif tr2 is False and inner[0] in ('param', 'tuple', 'list', 'dict'):
                known_empty = True
        if empty_literal(itval):
            known_empty = True
        if tr is True:
            known_nonempty = True       # a container that tested true has at least one element
        elif tr is False and itval[0] in ('param', 'tuple', 'list', 'dict'):
            known_empty = True
        live = [st]
        lid = next(self.uid)
        for i in range(unroll + 1):
            nxt = []
            for cur in live:
                # exit edge (iterator exhausted)
                if not (i == 0 and known_nonempty):
                    ex = cur.fork()
                    if i == 0:
                        ex.zero = ex.zero + (node.lineno,)
                        ex.facts.setdefault('zeroit', []).append(itval)
                    if hook and hook.get('on_exit'):
                        hook['on_exit'](ex, i)
                    outs.extend(self.exec_block(orelse, ex) if orelse else [Out(NEXT, ex)])
                if i == unroll or known_empty:
                    continue
                it = cur.fork()
                it.loops += 1
                rs = [R(it, ('iter', itval, '%d.%d' % (lid, i)))]
                if hook and hook.get('on_iter'):
                    rs = hook['on_iter'](it, i, rs[0].val)
                for rr in rs:
                    if rr.exc is not None:
                        rr.st.loops -= 1
                        outs.append(Out(RAISE, rr.st, exc=rr.exc, line=node.lineno))
                        continue
                    bouts = []
                    for ao in (self.assign(target, rr.val, rr.st) if target is not None else [Out(NEXT, rr.st)]):
                        if ao.kind != NEXT:
                            bouts.append(ao)
                        elif body_fn is not None:
                            bouts.extend(body_fn(ao.st))
                        else:
                            bouts.extend(self.exec_block(body, ao.st))
                    for o in bouts:
                        o.st.loops -= 1
                        if o.kind in (NEXT, CONTINUE):
                            nxt.append(o.st)
                        elif o.kind == BREAK:
                            outs.append(Out(NEXT, o.st))
                        else:
                            outs.append(o)
            live = nxt
            if not live:
                break
        return outs

    def _loop_exact(self, elems, st, target, body, orelse, node, body_fn):
        """iterate a literal sequence: exactly its elements"""
        outs = []
        live = [st]
        if not elems:
            st.zero = st.zero + (node.lineno,)
        for x in elems:
            nxt = []
            for cur in live:
                cur.loops += 1
                bouts = []
                for ao in (self.assign(target, x, cur) if target is not None else [Out(NEXT, cur)]):
                    if ao.kind != NEXT:
                        bouts.append(ao)
                    elif body_fn is not None:
                        bouts.extend(body_fn(ao.st))
                    else:
                        bouts.extend(self.exec_block(body, ao.st))
                for o in bouts:
                    o.st.loops -= 1
                    if o.kind in (NEXT, CONTINUE):
                        nxt.append(o.st)
                    elif o.kind == BREAK:
                        outs.append(Out(NEXT, o.st))
                    else:
                        outs.append(o)
            live = nxt
        for cur in live:
            outs.extend(self.exec_block(orelse, cur) if orelse else [Out(NEXT, cur)])
        return outs

    def st_With(self, s, st):
        outs = [(Out(NEXT, st), ())]
        for item in s.items:
            nxt = []
            for o, vals in outs:
                if o.kind != NEXT:
                    nxt.append((o, vals))
                    continue

                def then(st2, v, item=item):
                    if isinstance(v, tuple) and v and v[0] == 'cmgen':
                        # a generator-based context manager of the code under analysis: run it up to its yield now
                        res_ = []
                        for kind_, st3, val_, genv in self._cm_enter(v[1], st2):
                            if kind_ != NEXT:
                                res_.append(st3)          # an Out (raise before the yield)
                                continue
                            st3.facts['__withval'] = ('cmgen', v[1], genv)
                            if item.optional_vars is not None:
                                res_.extend(self.assign(item.optional_vars, val_, st3))
                            else:
                                res_.append(Out(NEXT, st3))
                        return res_
                    st2.facts['__withval'] = v
                    if hasattr(self.model, 'with_enter'):
                        self.model.with_enter(v, st2, s)
                    if item.optional_vars is not None:
                        return self.assign(item.optional_vars, ('ctx', v), st2)
                    return [Out(NEXT, st2)]
                for o2 in self._from_results(self.ev(item.context_expr, o.st), then):
                    v = o2.st.facts.pop('__withval', None) if o2.kind == NEXT else None
                    nxt.append((o2, vals + ((v,) if v is not None else ())))
            outs = nxt
        res = []
        for o, vals in outs:
            if o.kind != NEXT:
                res.append(o)
            else:
                for bo in self.exec_block(s.body, o.st):
                    # leaving the block (normally or not) exits the context managers, innermost first
                    cur = [bo]
                    for v in reversed(vals):
                        if isinstance(v, tuple) and v and v[0] == 'cmgen':
                            cur = [x for b in cur for x in self._cm_exit(v, b)]
                        elif isinstance(v, tuple) and len(v) > 2 and v[0] == 'call' and v[1][0] == 'lib' and v[1][1].split('.')[-1] == 'suppress':
                            # contextlib.suppress(E, ...): an exception of one of these classes raised in the block ends the block normally
                            names = [a[1].split('.')[-1] for a in v[2] if a[0] == 'lib']
                            nxt_ = []
                            for b in cur:
                                if b.kind == RAISE and names and token_matches(b.exc, names):
                                    b.st.emit('CAUGHT', (C(b.exc), C(','.join(names))), getattr(s, 'lineno', 0))
                                    nxt_.append(Out(NEXT, b.st))
                                else:
                                    nxt_.append(b)
                            cur = nxt_
                        else:
                            nxt_ = []
                            for b in cur:
                                tok_ = self.model.with_exit(v, b.st, s)
                                # __exit__ itself failed (releasing a lock that is not held): that exception replaces whatever was leaving the block
                                nxt_.append(Out(RAISE, b.st, exc=tok_, line=getattr(s, 'lineno', 0)) if isinstance(tok_, str) else b)
                            cur = nxt_
                    res.extend(cur)
        return res

    # ------------------------------------------------------------------ generator-based context managers (@contextlib.contextmanager)
    def _cm_parts(self, fnode):
        """(pre, yield expr, post, finalbody) of a generator with exactly one yield, at the top level of its body or of a top-level try/finally"""
        def is_yield(stm):
            if isinstance(stm, ast.Expr) and isinstance(stm.value, ast.Yield):
                return stm.value
            if isinstance(stm, ast.Assign) and isinstance(stm.value, ast.Yield):
                return stm.value
            return None
        nyield = sum(1 for x in ast.walk(fnode) if isinstance(x, (ast.Yield, ast.YieldFrom)))
        if nyield != 1:
            raise AnalysisError('unmodelled context manager %s: %d yields' % (fnode.name, nyield))
        body = fnode.body
        for i, stm in enumerate(body):
            y = is_yield(stm)
            if y is not None:
                return body[:i], y, body[i + 1:], []
            if isinstance(stm, ast.Try) and not stm.handlers and not stm.orelse:
                for j, s2 in enumerate(stm.body):
                    y = is_yield(s2)
                    if y is not None:
                        return body[:i] + stm.body[:j], y, stm.body[j + 1:] + stm.finalbody + body[i + 1:], stm.finalbody
        raise AnalysisError('unmodelled context manager %s: the yield is not at the top level of the body (or of a try/finally)' % fnode.name)

    def _cm_enter(self, gid, st):
        fnode, callee_env, label = self._cmgens[gid]
        pre, y, post, fin = self._cm_parts(fnode)
        saved_env = st.env
        st.env = dict(callee_env)
        st.depth += 1
        st.frames = st.frames + (label,)
        out = []

        def leave(st_):
            st_.env = dict(saved_env)
            st_.depth -= 1
            st_.frames = st_.frames[:-1]
        for o in self.exec_block(pre, st):
            if o.kind == NEXT:
                for r in (self.ev(y.value, o.st) if y.value is not None else [R(o.st, NONE)]):
                    genv = r.st.env
                    leave(r.st)
                    if r.exc is not None:
                        out.append((RAISE, Out(RAISE, r.st, exc=r.exc, line=r.line), None, None))
                    else:
                        out.append((NEXT, r.st, r.val, genv))
            elif o.kind == RAISE:
                leave(o.st)
                out.append((RAISE, o, None, None))
            else:
                leave(o.st)
                out.append((RAISE, Out(RAISE, o.st, exc=GENERIC, line=getattr(fnode, 'lineno', 0)), None, None))     # generator didn't yield
        return out

    def _cm_exit(self, v, bo):
        """the with-block was left with outcome bo: resume the generator (normal exit) or throw into it (exception)"""
        fnode, _, label = self._cmgens[v[1]]
        pre, y, post, fin = self._cm_parts(fnode)
        genv = v[2]
        block = post if bo.kind != RAISE else fin      # an exception raised at the yield runs only the finally clause, then propagates
        if not block:
            return [bo]
        st = bo.st
        saved_env = st.env
        st.env = dict(genv)
        st.depth += 1
        st.frames = st.frames + (label,)
        res = []
        for o in self.exec_block(block, st):
            o.st.env = dict(saved_env)
            o.st.depth -= 1
            o.st.frames = o.st.frames[:-1]
            if o.kind == RAISE:
                res.append(o)
            elif o.kind in (NEXT, RETURN):
                nb = Out(bo.kind, o.st, getattr(bo, 'val', None)) if bo.kind != RAISE else Out(RAISE, o.st, exc=bo.exc, line=bo.line)
                res.append(nb)
            else:
                raise AnalysisError('break/continue escaped context manager %s' % label)
        return res

    def st_Try(self, s, st):
        outs = []
        body_outs = self.exec_block(s.body, st)
        after = []   # outcomes before finally
        for o in body_outs:
            if o.kind == NEXT:
                after.extend(self.exec_block(s.orelse, o.st) if s.orelse else [o])
            elif o.kind == RAISE:
                handled = False
                for h in s.handlers:
                    hn = self.handler_names(h, o.st)
                    if token_matches(o.exc, hn):
                        handled = True
                        st2 = o.st
                        prev = st2.curexc
                        st2.curexc = o.exc
                        st2.emit('CAUGHT', (C(o.exc), C(','.join(hn) if hn else 'bare')), h.lineno)
                        if h.name:
                            st2.env[h.name] = ('exc', o.exc)
                        for ho in self.exec_block(h.body, st2):
                            ho.st.curexc = prev
                            after.append(ho)
                        break
                if not handled:
                    after.append(o)
            else:
                after.append(o)
        if not s.finalbody:
            return after
        for o in after:
            for fo in self.exec_block(s.finalbody, o.st):
                if fo.kind == NEXT:
                    outs.append(Out(o.kind, fo.st, o.val, o.exc, o.line))
                else:
                    outs.append(fo)
        return outs

    def handler_names(self, h, st):
        if h.type is None:
            return None
        names = []
        elts = h.type.elts if isinstance(h.type, ast.Tuple) else [h.type]
        for e in elts:
            if isinstance(e, ast.Name):
                v = st.env.get(e.id)
                if v is not None and v[0] == 'lib':
                    names.append(v[1].split('.')[-1])
                else:
                    names.append(e.id)
            elif isinstance(e, ast.Attribute):
                names.append(e.attr)
            else:
                names.append('?')
        return names

    # ------------------------------------------------------------------ assignment
    def assign(self, target, v, st):
        """returns list of Out (NEXT or RAISE)"""
        if isinstance(target, ast.Name):
            st.env[target.id] = v
            return [Out(NEXT, st)]
        if isinstance(target, (ast.Tuple, ast.List)):
            n = len(target.elts)
            if v[0] == 'phi' and len(v[1]) <= 4 and all(a[0] in ('tuple', 'list') and len(a[1]) == n and not any(x[0] == 'star' for x in a[1]) for a in v[1]):
                # the collapsed outcomes of an event-free helper returning same-arity tuples: unpacking re-creates the case split
                # (the components are correlated: json goes with 'w', dill with 'wb')
                outs = []
                for a in v[1]:
                    outs.extend(self.assign(target, a, st.fork()))
                return outs
            outs = [Out(NEXT, st)]
            for i, t in enumerate(target.elts):
                if isinstance(t, ast.Starred):
                    ev = ('proj*', i, v)
                    t = t.value
                elif v[0] in ('tuple', 'list') and len(v[1]) == n and not any(x[0] == 'star' for x in v[1]):
                    ev = v[1][i]
                else:
                    ev = ('proj', i, v)
                nxt = []
                for o in outs:
                    if o.kind == NEXT:
                        nxt.extend(self.assign(t, ev, o.st))
                    else:
                        nxt.append(o)
                outs = nxt
            return outs
        if isinstance(target, ast.Subscript):
            def then_obj(st2, obj):
                def then_idx(st3, idx):
                    return self._from_results(self.sub_store(obj, idx, v, st3, target),
                                              lambda st4, _v: [Out(NEXT, st4)])
                return self._from_results(self.ev_index(target.slice, st2), then_idx)
            return self._from_results(self.ev(target.value, st), then_obj)
        if isinstance(target, ast.Attribute):
            def then_obj(st2, obj):
                return self._from_results(self.attr_store(obj, target.attr, v, st2, target),
                                          lambda st3, _v: [Out(NEXT, st3)])
            return self._from_results(self.ev(target.value, st), then_obj)
        if isinstance(target, ast.Starred):
            return self.assign(target.value, v, st)
        raise AnalysisError('unmodelled assignment target %s' % type(target).__name__)

    def sub_store(self, obj, idx, v, st, node):
        h = self.model.sub_store(obj, idx, v, st, node)
        if h is not None:
            return h
        if obj[0] in ('dict', 'list', 'set'):
            for k, cur in list(st.env.items()):
                if cur is obj or cur == obj:
                    st.env[k] = ('mut', obj, next(self.uid))
        st.emit('SETITEM', (obj, idx, v), getattr(node, 'lineno', 0))
        return [R(st, NONE)]

    def sub_load(self, obj, idx, st, node):
        h = self.model.sub_load(obj, idx, st, node)
        if h is not None:
            return h
        if obj[0] == 'tuple' and is_const(idx) and isinstance(idx[1], int) \
                and -len(obj[1]) <= idx[1] < len(obj[1]) and not any(x[0] == 'star' for x in obj[1]):
            return [R(st, obj[1][idx[1]])]
        if obj[0] == 'dict' and is_const(idx) and obj[1] and all(k is not None and is_const(k) for k, _ in obj[1]):
            # a literal table indexed by a constant key
            hit = [v for k, v in obj[1] if k == idx]
            if hit:
                return [R(st, hit[-1])]
        return [R(st, ('sub', obj, idx))]

    def attr_store(self, obj, attr, v, st, node):
        h = self.model.attr_store(obj, attr, v, st, node)
        if h is not None:
            return h
        st.emit('SETATTR', (obj, C(attr), v), getattr(node, 'lineno', 0))
        return [R(st, NONE)]

    # ------------------------------------------------------------------ branching
    def branch(self, v, st, node=None):
        """list of (st, bool)"""
        if is_const(v):
            return [(st, bool(v[1]))]
        if v[0] == 'not':
            return [(s2, not b) for s2, b in self.branch(v[1], st, node)]
        if v[0] in ('tuple', 'list', 'set', 'dict') and not any(isinstance(x, tuple) and x and x[0] in ('star', 'dstar') for x in v[1]):
            return [(st, bool(v[1]))]
        h = self.model.truth(v, st, node)
        if h is not None:
            return h
        known = st.facts.get('truth', {}).get(v)
        if known is not None:
            return [(st, known)]
        a, b = st, st.fork()
        line = getattr(node, 'lineno', 0)
        for s2, val in ((a, True), (b, False)):
            s2.facts.setdefault('truth', {})[v] = val
            s2.emit('BRANCH', (v, C(val)), line)
        return [(a, True), (b, False)]

    # ------------------------------------------------------------------ expressions
    def lookup(self, name, st):
        if name in st.env:
            return st.env[name]
        g = self.model.global_name(name, st)
        if g is not None:
            return g
        if hasattr(builtins, name):
            return ('lib', name)
        return ('global', name)

    def binop(self, op, a, b):
        if is_const(a) and is_const(b):
            try:
                x, y = a[1], b[1]
                if op == '+':
                    return C(x + y)
                if op == '-':
                    return C(x - y)
                if op == '*':
                    return C(x * y)
                if op == '//':
                    return C(x // y)
                if op == '%' and not isinstance(x, str):
                    return C(x % y)
            except Exception:
                pass
        return ('bin', op, a, b)

    def ev_index(self, node, st):
        if isinstance(node, ast.Slice):
            parts = [node.lower, node.upper, node.step]

            def go(i, st2, acc):
                if i == 3:
                    return [R(st2, ('slice',) + tuple(acc))]
                if parts[i] is None:
                    return go(i + 1, st2, acc + [NONE])
                out = []
                for r in self.ev(parts[i], st2):
                    if r.exc is not None:
                        out.append(r)
                    else:
                        out.extend(go(i + 1, r.st, acc + [r.val]))
                return out
            return go(0, st, [])
        return self.ev(node, st)

    def ev_seq(self, nodes, st):
        """evaluate nodes left to right; returns list of R with val = list of values"""
        res = [R(st, [])]
        for n in nodes:
            nxt = []
            for r in res:
                if r.exc is not None:
                    nxt.append(r)
                    continue
                if isinstance(n, ast.Starred):
                    for r2 in self.ev(n.value, r.st):
                        if r2.exc is not None:
                            nxt.append(r2)
                        elif r2.val[0] in ('tuple', 'list') and not any(x[0] == 'star' for x in r2.val[1]):
                            nxt.append(R(r2.st, r.val + list(r2.val[1])))     # *literal: splice
                        else:
                            nxt.append(R(r2.st, r.val + [('star', r2.val)]))
                else:
                    for r2 in self.ev(n, r.st):
                        if r2.exc is not None:
                            nxt.append(r2)
                        else:
                            nxt.append(R(r2.st, r.val + [r2.val]))
            res = nxt
        return res

    def ev(self, node, st):
        m = getattr(self, 'ex_' + type(node).__name__, None)
        if m is None:
            raise AnalysisError('unmodelled expression kind %s at line %d' % (type(node).__name__, getattr(node, 'lineno', 0)))
        return m(node, st)

    def ex_Constant(self, n, st):
        return [R(st, C(n.value))]

    def ex_Name(self, n, st):
        return [R(st, self.lookup(n.id, st))]

    def ex_Tuple(self, n, st):
        return [R(r.st, ('tuple', tuple(r.val))) if r.exc is None else r for r in self.ev_seq(n.elts, st)]

    def ex_List(self, n, st):
        out = []
        for r in self.ev_seq(n.elts, st):
            if r.exc is None:
                v = ('list', tuple(r.val))
                h = self.model.literal(v, r.st, n)
                out.append(R(r.st, h if h is not None else v))
            else:
                out.append(r)
        return out

    def ex_Set(self, n, st):
        return [R(r.st, ('set', tuple(r.val))) if r.exc is None else r for r in self.ev_seq(n.elts, st)]

    def ex_Dict(self, n, st):
        nodes = []
        for k, v in zip(n.keys, n.values):
            if k is not None:
                nodes.append(k)
            nodes.append(v)
        out = []
        for r in self.ev_seq(nodes, st):
            if r.exc is not None:
                out.append(r)
                continue
            vals = list(r.val)
            items = []
            for k in n.keys:
                if k is None:
                    items.append((None, ('dstar', vals.pop(0))))
                else:
                    kk = vals.pop(0)
                    items.append((kk, vals.pop(0)))
            v = ('dict', tuple(items))
            h = self.model.literal(v, r.st, n)
            out.append(R(r.st, h if h is not None else v))
        return out

    def ex_JoinedStr(self, n, st):
        nodes = [v.value if isinstance(v, ast.FormattedValue) else v for v in n.values]
        return [R(r.st, ('fstr', tuple(r.val))) if r.exc is None else r for r in self.ev_seq(nodes, st)]

    def ex_FormattedValue(self, n, st):
        return self.ev(n.value, st)

    def ex_Lambda(self, n, st):
        self._closures[id(n)] = (n, st.env)
        return [R(st, ('lambda', id(n), unparse(n)))]

    def ex_Yield(self, n, st):
        if n.value is None:
            st.emit('YIELD', (), n.lineno)
            return [R(st, ('opaque', 'sent'))]
        out = []
        for r in self.ev(n.value, st):
            if r.exc is None:
                r.st.emit('YIELD', (r.val,), n.lineno)
                out.append(R(r.st, ('opaque', 'sent')))
            else:
                out.append(r)
        return out

    ex_YieldFrom = ex_Yield
    ex_Await = ex_Yield

    def ex_NamedExpr(self, n, st):
        out = []
        for r in self.ev(n.value, st):
            if r.exc is None:
                r.st.env[n.target.id] = r.val
            out.append(r)
        return out

    def ex_Starred(self, n, st):
        return [R(r.st, ('star', r.val)) if r.exc is None else r for r in self.ev(n.value, st)]

    def ex_Attribute(self, n, st):
        out = []
        for r in self.ev(n.value, st):
            if r.exc is not None:
                out.append(r)
                continue
            h = self.model.attr_load(r.val, n.attr, r.st, n)
            if h is not None:
                out.extend(h)
            else:
                out.append(R(r.st, self.default_attr(r.val, n.attr)))
        return out

    def default_attr(self, obj, attr):
        if obj[0] == 'lib':
            return ('lib', obj[1] + '.' + attr)
        if obj[0] in ('bk',):
            return ('bound', obj, attr)
        return ('attr', obj, attr)

    def ex_Subscript(self, n, st):
        out = []
        for r in self.ev(n.value, st):
            if r.exc is not None:
                out.append(r)
                continue
            for r2 in self.ev_index(n.slice, r.st):
                if r2.exc is not None:
                    out.append(r2)
                    continue
                out.extend(self.sub_load(r.val, r2.val, r2.st, n))
        return out

    def ex_BinOp(self, n, st):
        out = []
        for r in self.ev_seq([n.left, n.right], st):
            if r.exc is not None:
                out.append(r)
            else:
                out.append(R(r.st, self.binop(BINOPS.get(type(n.op), '?'), r.val[0], r.val[1])))
        return out

    def ex_UnaryOp(self, n, st):
        out = []
        for r in self.ev(n.operand, st):
            if r.exc is not None:
                out.append(r)
            elif isinstance(n.op, ast.Not):
                if is_const(r.val):
                    out.append(R(r.st, C(not r.val[1])))
                else:
                    out.append(R(r.st, ('not', r.val)))
            elif isinstance(n.op, ast.USub) and is_const(r.val) and isinstance(r.val[1], (int, float)):
                out.append(R(r.st, C(-r.val[1])))
            else:
                out.append(R(r.st, ('unary', type(n.op).__name__, r.val)))
        return out

    def ex_BoolOp(self, n, st):
        is_and = isinstance(n.op, ast.And)
        res = []

        def go(i, st2):
            for r in self.ev(n.values[i], st2):
                if r.exc is not None:
                    res.append(r)
                    continue
                if i == len(n.values) - 1:
                    res.append(r)
                    continue
                for st3, b in self.branch(r.val, r.st, n.values[i]):
                    if b == is_and:
                        go(i + 1, st3)
                    else:
                        # short circuit: value is this operand, truthiness known
                        res.append(R(st3, r.val if not is_const(r.val) else r.val))
        go(0, st)
        return res

    def ex_IfExp(self, n, st):
        out = []
        for r in self.ev(n.test, st):
            if r.exc is not None:
                out.append(r)
                continue
            for st2, b in self.branch(r.val, r.st, n.test):
                out.extend(self.ev(n.body if b else n.orelse, st2))
        return out

    def ex_Compare(self, n, st):
        out = []
        nodes = [n.left] + list(n.comparators)
        for r in self.ev_seq(nodes, st):
            if r.exc is not None:
                out.append(r)
                continue
            vals = r.val
            if len(n.ops) == 1:
                op = CMPOPS.get(type(n.ops[0]), '?')
                if op in ('in', 'not in'):
                    h = self.model.contains(vals[0], vals[1], r.st, n)
                    if h is not None:
                        for r2 in h:
                            if r2.exc is None and op == 'not in':
                                r2 = R(r2.st, C(not r2.val[1]) if is_const(r2.val) else ('not', r2.val))
                            out.append(r2)
                        continue
                out.append(R(r.st, self.cmp(op, vals[0], vals[1])))
            else:
                parts = []
                for i, o in enumerate(n.ops):
                    parts.append(self.cmp(CMPOPS.get(type(o), '?'), vals[i], vals[i + 1]))
                out.append(R(r.st, ('and', tuple(parts))))
        return out

    def cmp(self, op, a, b):
        def lit_len(t):
            # len() of a literal container without star elements is a number
            if t[0] == 'call' and t[1] == ('lib', 'len') and len(t[2]) == 1 and not t[3] and t[2][0][0] in ('tuple', 'list', 'dict', 'set') \
                    and isinstance(t[2][0][1], tuple) and not any(isinstance(x, tuple) and x and x[0] in ('star', 'dstar') for x in t[2][0][1]):
                return C(len(t[2][0][1]))
            return t
        a, b = lit_len(a), lit_len(b)
        if is_const(a) and is_const(b):
            try:
                x, y = a[1], b[1]
                if op == '==':
                    return C(x == y)
                if op == '!=':
                    return C(x != y)
                if op == 'is':
                    return C(x is y)
                if op == 'is not':
                    return C(x is not y)
                if op == '<':
                    return C(x < y)
                if op == '>':
                    return C(x > y)
                if op == '<=':
                    return C(x <= y)
                if op == '>=':
                    return C(x >= y)
            except Exception:
                pass
        if op in ('is', 'is not'):
            same = None
            if a == b and a[0] in ('opaque', 'role', 'bk', 'param', 'ev', 'closure', 'lib', 'global'):
                same = True
            elif a != b and set([a[0], b[0]]) <= set(['opaque', 'ev']) and ('opaque' in (a[0], b[0])):
                same = False      # a freshly produced value is never a marker object created elsewhere
            # a freshly built container is never None: list(x), tuple(x), dict(x), set(x), sorted(x), x.copy(), [..], (..), {..}
            for x, y in ((a, b), (b, a)):
                if y == NONE and same is None:
                    if x[0] in ('tuple', 'list', 'dict', 'set', 'closure'):
                        same = False
                    elif x[0] == 'call' and x[1][0] == 'lib' and x[1][1].split('.')[-1] in ('list', 'tuple', 'dict', 'set', 'frozenset', 'sorted', 'bytearray'):
                        same = False
                    elif x[0] == 'call' and x[1][0] == 'attr' and x[1][-1] == 'copy' and not x[2]:
                        same = False
            if same is not None:
                return C(same if op == 'is' else not same)
        if op == 'not in':
            return ('not', ('cmp', 'in', a, b))
        if op == '!=':
            return ('not', ('cmp', '==', a, b))
        if op == 'is not':
            return ('not', ('cmp', 'is', a, b))
        return ('cmp', op, a, b)

    def ex_Call(self, n, st):
        out = []
        for rf in self.ev(n.func, st):
            if rf.exc is not None:
                out.append(rf)
                continue
            for ra in self.ev_seq(n.args, rf.st):
                if ra.exc is not None:
                    out.append(ra)
                    continue
                knodes = [k.value for k in n.keywords]
                for rk in self.ev_seq(knodes, ra.st):
                    if rk.exc is not None:
                        out.append(rk)
                        continue
                    kws = []
                    for k, v in zip(n.keywords, rk.val):
                        kws.append(('dstar', v) if k.arg is None else ('kw', k.arg, v))
                    res = self.call(rf.val, tuple(ra.val), tuple(kws), rk.st, n)
                    # a mutating method on a local literal: the variable no longer holds that literal
                    if isinstance(n.func, ast.Attribute) and isinstance(n.func.value, ast.Name) and n.func.attr in MUTATORS \
                            and not (n.func.attr in ('update', 'extend') and all(empty_literal(a) for a in ra.val)
                                     and all(empty_literal(k[-1]) for k in kws)):
                        nm = n.func.value.id
                        for r in res:
                            cur = r.st.env.get(nm)
                            if cur is not None and cur[0] in ('dict', 'list', 'set'):
                                r.st.env[nm] = ('mut', cur, next(self.uid))
                            elif cur is not None and n.func.attr in ('extend', 'update') and cur[0] in ('call', 'ext') and ra.val \
                                    and getattr(self.model, 'track_extend', False):
                                # values = list(args); values.extend(kwds.values()): the container now also holds the extension
                                r.st.env[nm] = ('ext', cur, tuple(ra.val))
                    out.extend(res)
        return out

    def call(self, f, args, kws, st, node):
        h = self.model.call(f, args, kws, st, node)
        if h is not None:
            return h
        if f[0] == 'closure':
            fnode, denv = self._closures.get(f[2], (None, None))
            if fnode is not None:
                return self.inline(fnode, f[1], None, args, kws, st, node, defenv=denv)
        if f[0] == 'lambda' and getattr(self.model, 'inline_lambdas', False):
            # a function value handed to a helper and called there (self._transact(lambda memo: ...))
            fnode, denv = self._closures.get(f[1], (None, None))
            if fnode is not None:
                return self.inline(fnode, 'lambda@%d' % getattr(fnode, 'lineno', 0), None, args, kws, st, node, defenv=denv)
        if f[0] == 'lib' and len(args) == 1 and not kws:
            a = args[0]
            if f[1] == 'len' and a[0] in ('tuple', 'list') and not any(x[0] == 'star' for x in a[1]):
                return [R(st, C(len(a[1])))]
            if f[1] in ('bool', 'str', 'int') and is_const(a) and isinstance(a[1], (bool, int, str, type(None))):
                try:
                    return [R(st, C({'bool': bool, 'str': str, 'int': int}[f[1]](a[1])))]
                except Exception:
                    pass
        return [R(st, ('call', f, args, kws))]

    # ------------------------------------------------------------------ inlining
    def bind_args(self, fnode, args, kws, self_val=None):
        """bind symbolic call arguments to parameters; returns env dict or None when the
        binding cannot be decided (star-args into named parameters)"""
        a = fnode.args
        names = [x.arg for x in getattr(a, 'posonlyargs', [])] + [x.arg for x in a.args]
        defaults = dict(zip(names[len(names) - len(a.defaults):], a.defaults))
        env = {}
        pos = list(args)
        if self_val is not None:
            pos = [self_val] + pos
        i = 0
        rest = []
        for j, p in enumerate(pos):
            if p[0] == 'star':
                # star expansion: only into *vararg (or nothing else left)
                if i >= len(names) and a.vararg:
                    rest.append(p)
                    continue
                if p[1][0] in ('tuple', 'list') and not any(x[0] == 'star' for x in p[1][1]):
                    for x in p[1][1]:
                        if i < len(names):
                            env[names[i]] = x
                            i += 1
                        else:
                            rest.append(x)
                    continue
                # unknown-length expansion into named params: positional params become projections
                k = 0
                while i < len(names):
                    env[names[i]] = ('maybe', ('proj', k, p[1]))
                    i += 1
                    k += 1
                if a.vararg:
                    rest.append(('star', ('rest', k, p[1])))
                continue
            if i < len(names):
                env[names[i]] = p
                i += 1
            else:
                if not a.vararg:
                    return None
                rest.append(p)
        if a.vararg:
            if len(rest) == 1 and rest[0][0] == 'star':
                env[a.vararg.arg] = rest[0][1]
            else:
                env[a.vararg.arg] = ('tuple', tuple(rest))
        extra = []
        kwonly = [x.arg for x in a.kwonlyargs]
        for k in kws:
            if k[0] == 'kw':
                if k[1] in names or k[1] in kwonly:
                    env[k[1]] = k[2]
                elif a.kwarg:
                    extra.append((C(k[1]), k[2]))
                else:
                    return None
            else:  # dstar
                if a.kwarg:
                    extra.append((None, k))
                else:
                    # **d into named parameters: unknown which are bound
                    for nm in names + kwonly:
                        if nm not in env:
                            d = defaults.get(nm)
                            env[nm] = ('maybe', ('sub', k[1], C(nm)))
        if a.kwarg:
            if len(extra) == 1 and extra[0][0] is None:
                env[a.kwarg.arg] = extra[0][1][1]
            else:
                env[a.kwarg.arg] = ('dict', tuple(extra))
        self._pending_defaults = []
        for nm in names:
            if nm not in env:
                if nm in defaults:
                    self._pending_defaults.append((nm, defaults[nm]))
                else:
                    env[nm] = ('param', nm)
        for x, d in zip(a.kwonlyargs, a.kw_defaults):
            if x.arg not in env:
                if d is not None:
                    self._pending_defaults.append((x.arg, d))
                else:
                    env[x.arg] = ('param', x.arg)
        return env

    def inline(self, fnode, label, base_env, args, kws, st, node, self_val=None, defenv=None):
        """expand a call to a function whose body is available"""
        if st.depth >= self.max_depth or label in st.frames:
            st.emit('OPAQUECALL', (C(label),) + tuple(args), getattr(node, 'lineno', 0))
            return [R(st, ('call', ('opaque', label), tuple(args), tuple(kws)))]
        if self_val is not None and any((isinstance(d_, ast.Name) and d_.id == 'staticmethod') for d_ in getattr(fnode, 'decorator_list', [])):
            self_val = None        # a static method reached through the instance receives no self
        env = self.bind_args(fnode, args, kws, self_val)
        if env is None:
            raise AnalysisError('cannot bind arguments of inlined call to %s at line %d' % (label, getattr(node, 'lineno', 0)))
        pend = self._pending_defaults
        saved_env = st.env
        callee_env = dict(base_env if base_env is not None else saved_env)
        if defenv:
            # free variables of a closure called from another function (a callback) live in the environment that defined it
            for k_, v_ in defenv.items():
                callee_env.setdefault(k_, v_)
        callee_env.update(env)
        for nm, d in pend:
            # defaults are constants in this code base; evaluate in callee env without effects
            if isinstance(d, ast.Constant):
                callee_env[nm] = C(d.value)
            else:
                callee_env[nm] = ('default', nm, unparse(d))
        if not isinstance(fnode, ast.Lambda) and is_contextmanager(fnode):
            gid = len(self._cmgens) + 1
            self._cmgens[gid] = (fnode, callee_env, label)
            return [R(st, ('cmgen', gid))]
        n_events0 = len(st.events)
        facts0 = _copyfacts(st.facts)
        zero0 = st.zero
        st.env = callee_env
        st.depth += 1
        st.frames = st.frames + (label,)
        if isinstance(fnode, ast.Lambda):
            results = []
            for r in self.ev(fnode.body, st):
                results.append(r)
            outs = [Out(RETURN, r.st, r.val) if r.exc is None else Out(RAISE, r.st, exc=r.exc, line=r.line) for r in results]
        else:
            outs = self.exec_block(fnode.body, st)
        if self.collapse_pure and len(outs) > 1 and all(o.kind in (NEXT, RETURN) and all(e.kind == 'BRANCH' for e in o.st.events[n_events0:]) for o in outs):
            # an event-free helper: its internal case split does not matter to any rule -> one outcome, phi value
            vals = []
            for o in outs:
                v = NONE if o.kind == NEXT else o.val
                if v not in vals:
                    vals.append(v)
            st0 = outs[0].st
            st0.env = saved_env
            st0.depth -= 1
            st0.frames = st0.frames[:-1]
            st0.facts = facts0
            st0.zero = zero0
            st0.events = st0.events[:n_events0]
            val = vals[0] if len(vals) == 1 else ('phi', tuple(sorted(vals, key=repr)))
            return [R(st0, val)]
        res = []
        for o in outs:
            o.st.env = dict(saved_env) if len(outs) > 1 else saved_env
            o.st.depth -= 1
            o.st.frames = o.st.frames[:-1]
            if o.kind == NEXT:
                res.append(R(o.st, NONE))
            elif o.kind == RETURN:
                res.append(R(o.st, o.val))
            elif o.kind == RAISE:
                res.append(R(o.st, None, o.exc, o.line))
            else:
                raise AnalysisError('break/continue escaped inlined %s' % label)
        return res

    # ------------------------------------------------------------------ comprehensions
    def _comp(self, n, st, kind):
        gens = n.generators
        saved = None

        def go(gi, st2):
            """returns list of Out(NEXT) states after running the comprehension 'loops'"""
            if gi == len(gens):
                if kind == 'dict':
                    rs = self.ev_seq([n.key, n.value], st2)
                else:
                    rs = self.ev(n.elt, st2)
                outs = []
                for r in rs:
                    if r.exc is not None:
                        outs.append(Out(RAISE, r.st, exc=r.exc, line=r.line))
                    else:
                        r.st.facts['__comp_elt'] = r.val if kind != 'dict' else ('tuple', tuple(r.val))
                        outs.append(Out(NEXT, r.st))
                return outs
            g = gens[gi]
            outs = []
            for r in self.ev(g.iter, st2):
                if r.exc is not None:
                    outs.append(Out(RAISE, r.st, exc=r.exc, line=r.line))
                    continue

                def body_fn(st3, g=g, gi=gi):
                    states = [st3]
                    bouts = []
                    for cond in g.ifs:
                        nxt = []
                        for s4 in states:
                            for rc in self.ev(cond, s4):
                                if rc.exc is not None:
                                    bouts.append(Out(RAISE, rc.st, exc=rc.exc, line=rc.line))
                                    continue
                                for s5, b in self.branch(rc.val, rc.st, cond):
                                    if b:
                                        nxt.append(s5)
                                    else:
                                        bouts.append(Out(CONTINUE, s5))
                        states = nxt
                    for s4 in states:
                        bouts.extend(go(gi + 1, s4))
                    return bouts
                outs.extend(self.loop_over(r.val, r.st, g.target, None, None, n, self.comp_unroll, body_fn=body_fn))
            return outs

        self._comp_conds = ()
        shape = self._comp_shape(n, st, kind)
        # a comprehension with an `if` clause may yield fewer elements than its source: marked in the term (with the filter conditions)
        filt = (('filtered',) + tuple(self._comp_conds),) if any(g.ifs for g in n.generators) else ()
        # comprehension has its own scope: restore shadowed names afterwards
        names = set()
        for g in gens:
            for t in ast.walk(g.target):
                if isinstance(t, ast.Name):
                    names.add(t.id)
        shadow = dict((k, st.env.get(k)) for k in names)
        res = []
        first_iter = None
        n_events0 = len(st.events)
        facts0 = _copyfacts(st.facts) if self.collapse_pure else None
        zero0 = st.zero
        gouts = go(0, st)
        if self.collapse_pure and len(gouts) > 1 and all(o.kind == NEXT and all(e.kind == 'BRANCH' for e in o.st.events[n_events0:]) for o in gouts):
            # an event-free comprehension: iteration count is irrelevant to every rule
            o = gouts[0]
            o.st.facts = facts0
            o.st.zero = zero0
            o.st.events = o.st.events[:n_events0]
            gouts = [o]
        for o in gouts:
            for k, v in shadow.items():
                if v is None:
                    o.st.env.pop(k, None)
                else:
                    o.st.env[k] = v
            if o.kind == NEXT:
                o.st.facts.pop('__comp_elt', None)
                res.append(R(o.st, ('comp', kind, shape) + filt))
            elif o.kind == RAISE:
                res.append(R(o.st, None, o.exc, o.line))
            else:
                res.append(R(o.st, ('comp', kind, shape) + filt))
        return res

    def _comp_shape(self, n, st, kind):
        """the element term of a comprehension, independent of how many iterations a path takes
        (dry evaluation on a discarded copy of the state; loop variables are each(iterable)#*)"""
        dry = st.fork()
        try:
            for g in n.generators:
                rs = [r for r in self.ev(g.iter, dry) if r.exc is None]
                if not rs:
                    return ('opaque', 'noelt')
                dry = rs[-1].st
                outs = [o for o in self.assign(g.target, ('iter', rs[-1].val, '*'), dry) if o.kind == NEXT]
                if not outs:
                    return ('opaque', 'noelt')
                dry = outs[-1].st
                for cond in g.ifs:
                    try:
                        cr = [r for r in self.ev(cond, dry.fork()) if r.exc is None]
                    except AnalysisError:
                        cr = []
                    self._comp_conds = self._comp_conds + ((cr[-1].val if cr else ('opaque', 'cond')),)
            if kind == 'dict':
                rs = [r for r in self.ev_seq([n.key, n.value], dry) if r.exc is None]
                return ('tuple', tuple(rs[-1].val)) if rs else ('opaque', 'noelt')
            rs = [r for r in self.ev(n.elt, dry) if r.exc is None]
            if not rs:
                return ('opaque', 'noelt')
            vals = []
            for r in rs:
                if r.val not in vals:
                    vals.append(r.val)
            # an element computed by an inlined helper with several return paths (`return abspath(x)` / `return x`) is every one of them
            return vals[0] if len(vals) == 1 else ('phi', tuple(vals))
        except AnalysisError:
            return ('opaque', 'noelt')

    def ex_ListComp(self, n, st):
        return self._comp(n, st, 'list')

    def ex_SetComp(self, n, st):
        return self._comp(n, st, 'set')

    def ex_GeneratorExp(self, n, st):
        return self._comp(n, st, 'gen')

    def ex_DictComp(self, n, st):
        return self._comp(n, st, 'dict')


def render_path(out, limit=60):
    """one-line-per-event rendering of a path outcome"""
    lines = []
    for e in out.st.events[:limit]:
        lines.append('%s%s' % ('  ' * e.depth, e))
    if len(out.st.events) > limit:
        lines.append('... (%d more)' % (len(out.st.events) - limit))
    if out.kind == RETURN:
        lines.append('=> return %s' % render(out.val))
    else:
        lines.append('=> raise %s (line %s)' % (out.exc, out.line))
    return lines
