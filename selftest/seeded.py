#!/usr/bin/env python3
"""Handling of seeded changes (realistic property-breaking patches written by independent sub-agents).

  verify <diff> <demo>     apply the diff in a fresh scratch worktree of /repo, run the 46-test baseline and the demo
                           (demo must FAIL with the change and PASS without); prints a JSON verdict
  detect [<id> ...]        for every /verif/seeded/<id>/patch.diff: apply to a scratch copy of /repo/klepto and run all
                           18 checks (quick) against it; prints which checks raise a VIOLATION / ANALYSIS-ERROR
Scratch trees live under the system temp dir and are removed afterwards.  Nothing is ever applied to /repo itself.
"""
import json
import os
import re
import shutil
import subprocess
import sys
import tempfile

HERE = os.path.dirname(os.path.abspath(__file__))
VERIF = os.path.dirname(HERE)
REPO = '/repo'
PY = '/venv/bin/python'
ALL = ['C01', 'C02', 'C03', 'C04', 'C05', 'C06', 'C07', 'C08', 'C09', 'C10', 'C11', 'C12', 'C13', 'C14', 'C15', 'C16', 'C17', 'C18', 'C19', 'C20']
BASELINE = 46


def sh(cmd, cwd=None, env=None, timeout=1800):
    e = dict(os.environ)
    e.update(env or {})
    p = subprocess.run(cmd, shell=True, cwd=cwd, env=e, capture_output=True, text=True, timeout=timeout)
    return p.returncode, p.stdout + p.stderr


def verify(diff, demo):
    wt = tempfile.mkdtemp(prefix='kvseedwt_')
    os.rmdir(wt)
    out = {'diff': diff, 'demo': demo}
    try:
        rc, o = sh('git -C %s worktree add -q --detach %s HEAD' % (REPO, wt))
        if rc:
            raise RuntimeError(o)
        env = {'PYTHONPATH': wt}
        rc, o = sh('%s %s' % (PY, os.path.abspath(demo)), cwd=wt, env=env)
        out['demo_without_change'] = 'PASS' if rc == 0 else 'FAIL rc=%d' % rc
        rc, o = sh('git apply %s' % os.path.abspath(diff), cwd=wt)
        if rc:
            out['apply'] = 'FAILED: ' + o[-300:]
            return out
        out['apply'] = 'ok'
        rc, o = sh('%s -c "import klepto,sys; print(klepto.__file__)"' % PY, cwd=wt, env=env)
        out['imports_from'] = o.strip().splitlines()[-1] if o.strip() else ''
        rc, o = sh('%s -m pytest -q -p no:cacheprovider --timeout=900 --continue-on-collection-errors' % PY, cwd=wt, env=env)
        m = re.search(r'(\d+) passed', o)
        out['tests_passed'] = int(m.group(1)) if m else 0
        rc, o = sh('%s %s' % (PY, os.path.abspath(demo)), cwd=wt, env=env)
        out['demo_with_change'] = 'PASS' if rc == 0 else 'FAIL rc=%d' % rc
        out['demo_tail'] = o.strip().splitlines()[-3:]
        out['confirmed'] = (out['tests_passed'] >= BASELINE and out['demo_with_change'].startswith('FAIL')
                            and out['demo_without_change'] == 'PASS' and out['imports_from'].startswith(wt))
        return out
    finally:
        sh('git -C %s worktree remove --force %s' % (REPO, wt))
        shutil.rmtree(wt, ignore_errors=True)
        sh('git -C %s worktree prune' % REPO)


def detect_one(i):
    sd = os.path.join(VERIF, 'seeded')
    root = tempfile.mkdtemp(prefix='kvseed_')
    try:
        shutil.copytree(os.path.join(REPO, 'klepto'), os.path.join(root, 'klepto'), ignore=shutil.ignore_patterns('tests', '__pycache__'))
        rc, o = sh('patch -p1 -s < %s' % os.path.join(sd, i, 'patch.diff'), cwd=root)
        if rc:
            return i, {'error': 'patch failed: ' + o[-200:]}
        res = {}
        for p in ALL:
            rc, o = sh('python3 %s/check.py %s --tier quick --repo %s' % (VERIF, p, root), cwd=VERIF, env={'KV_OUTROOT': os.path.join(root, '_out')})
            if rc == 1:
                rules = sorted(set(re.findall(r'^RULE (\S+) FAILED', o, re.M)))
                res[p] = 'VIOLATION ' + ','.join(rules)
            elif rc != 0:
                last = [l for l in o.splitlines() if 'ANALYSIS-ERROR' in l]
                res[p] = 'ANALYSIS-ERROR ' + (last[-1][:160] if last else '')
        return i, res
    finally:
        shutil.rmtree(root, ignore_errors=True)


def job_seed(arg):
    """thorough-tier liveness: does the check of property `prop` still report seeded change `i` (applied to a scratch copy of the current tree)"""
    i, prop, repo = arg
    sd = os.path.join(VERIF, 'seeded')
    root = tempfile.mkdtemp(prefix='kvlive_')
    try:
        shutil.copytree(os.path.join(repo, 'klepto'), os.path.join(root, 'klepto'), ignore=shutil.ignore_patterns('tests', '__pycache__'))
        rc, o = sh('patch -p1 -s < %s' % os.path.join(sd, i, 'patch.diff'), cwd=root)
        if rc:
            return i, None, 'patch does not apply to this tree'
        rc, o = sh('python3 %s/check.py %s --tier quick --repo %s' % (VERIF, prop, root), cwd=VERIF,
                   env={'KV_OUTROOT': os.path.join(root, '_out'), 'KV_NO_LIVENESS': '1'})
        if rc == 1 and 'VIOLATION property=%s' % prop in o:
            return i, True, ','.join(sorted(set(re.findall(r'^RULE (\S+) FAILED', o, re.M))))
        return i, False, 'exit %d' % rc
    finally:
        shutil.rmtree(root, ignore_errors=True)


def detect(ids):
    from concurrent.futures import ProcessPoolExecutor
    sd = os.path.join(VERIF, 'seeded')
    ids = ids or sorted(d for d in os.listdir(sd) if os.path.exists(os.path.join(sd, d, 'patch.diff')))
    with ProcessPoolExecutor(16) as ex:
        return dict(ex.map(detect_one, ids))


def main():
    if len(sys.argv) >= 4 and sys.argv[1] == 'verify':
        print(json.dumps(verify(sys.argv[2], sys.argv[3]), indent=1))
    elif len(sys.argv) >= 2 and sys.argv[1] == 'table':
        t = detect([])
        lines = ['# Seeded changes and the checks that catch them', '',
                 'Generated by `python3 selftest/seeded.py table` (quick tier, every check against every seeded patch applied to a scratch copy of /repo).', '',
                 '| seed | target | verdict | checks that report a VIOLATION (rules) | what it needs to manifest |', '|---|---|---|---|---|']
        for i, res in sorted(t.items()):
            meta = json.load(open(os.path.join(VERIF, 'seeded', i, 'meta.json')))
            target = meta.get('property', '?')
            hit = dict((p, v[len('VIOLATION '):]) for p, v in res.items() if v.startswith('VIOLATION'))
            verdict = 'detected by the target check' if target in hit else ('detected by another check' if hit else 'MISSED')
            if 'error' in res or str(meta.get('port_note', '')).startswith('SUPERSEDED'):
                verdict = 'not applicable to the current tree (' + str(meta.get('port_note', res.get('error')))[:260] + ')'
                t[i] = dict(res, error='superseded')
            needs = str(meta.get('needs_to_manifest', meta.get('summary', '')))[:220].replace('|', '/').replace('\n', ' ')
            lines.append('| %s | %s | %s | %s | %s |' % (i, target, verdict, '; '.join('%s: %s' % kv for kv in sorted(hit.items())) or '-', needs))
        open(os.path.join(VERIF, 'seeded', 'RESULTS.md'), 'w').write('\n'.join(lines) + '\n')
        det = dict((i, dict((p, v[len('VIOLATION '):]) for p, v in res.items() if v.startswith('VIOLATION'))) for i, res in sorted(t.items()) if 'error' not in res)
        json.dump(det, open(os.path.join(VERIF, 'seeded', 'detected.json'), 'w'), indent=1, sort_keys=True)
        print('\n'.join(lines[:8]))
    elif len(sys.argv) >= 2 and sys.argv[1] == 'detect':
        t = detect(sys.argv[2:])
        for i, res in sorted(t.items()):
            meta = {}
            mp = os.path.join(VERIF, 'seeded', i, 'meta.json')
            if os.path.exists(mp):
                meta = json.load(open(mp))
            target = meta.get('property', '?')
            hit = [p for p, v in res.items() if v.startswith('VIOLATION')]
            status = 'DETECTED' if target in hit else ('detected-by-other' if hit else 'MISSED')
            print('%-28s target=%s %s %s' % (i, target, status, json.dumps(res)))
    else:
        print(__doc__)
        return 2


if __name__ == '__main__':
    sys.exit(main())
