"""Silence set: behaviour-preserving variants of /repo/klepto.  Every check must exit 0 on each."""
import ast
import os
import re

VARIANTS = []


def V(id):
    def deco(fn):
        VARIANTS.append({'id': id, 'fn': fn})
        return fn
    return deco


def files(root):
    d = os.path.join(root, 'klepto')
    return [os.path.join(d, f) for f in sorted(os.listdir(d)) if f.endswith('.py')]


def rewrite(path, fn):
    s = open(path).read()
    t = fn(s)
    open(path, 'w').write(t)
    return s != t


def sub_all(root, names, old, new, count_min=1):
    n = 0
    for p in files(root):
        if os.path.basename(p) in names:
            s = open(p).read()
            n += s.count(old)
            open(p, 'w').write(s.replace(old, new))
    if n < count_min:
        raise RuntimeError('variant anchor not found: %r' % old[:50])


CACHES = ('_cache.py', 'safe.py')


@V('unparse-all')
def _(root):
    """ast.unparse every module: comments, layout, quotes and line numbers all change"""
    for p in files(root):
        s = open(p).read()
        open(p, 'w').write(ast.unparse(ast.parse(s)) + '\n')


@V('shift-lines')
def _(root):
    for p in files(root):
        s = open(p).read()
        lines = s.split('\n')
        # keep a shebang/encoding line first
        head = 1 if lines and lines[0].startswith('#!') else 0
        lines[head:head] = ['#', '# padding to move every line number', '#'] * 5
        open(p, 'w').write('\n'.join(lines))


class Renamer(ast.NodeTransformer):
    def __init__(self, mapping):
        self.m = mapping

    def visit_Name(self, n):
        if n.id in self.m:
            n.id = self.m[n.id]
        return n

    def visit_arg(self, n):
        if n.arg in self.m:
            n.arg = self.m[n.arg]
        return n


def rename_in_calls(root, mapping):
    """rename locals inside every decorator class's __call__ (all nested closures)"""
    for p in files(root):
        if os.path.basename(p) not in CACHES:
            continue
        tree = ast.parse(open(p).read())
        for cls in tree.body:
            if isinstance(cls, ast.ClassDef):
                for f in cls.body:
                    if isinstance(f, ast.FunctionDef) and f.name == '__call__':
                        Renamer(mapping).visit(f)
        open(p, 'w').write(ast.unparse(tree) + '\n')


@V('rename-locals')
def _(root):
    rename_in_calls(root, {'result': 'res', '_args': 'rargs', '_kwds': 'rkwds', 'stats': 'counters', 'queue': 'recency',
                           'refcount': 'uses_in_queue', 'use_count': 'freq', 'maxqueue': 'qlimit', 'sentinel': 'marker', 'k': 'victim',
                           'HIT': 'I_HIT', 'MISS': 'I_MISS', 'LOAD': 'I_LOAD', 'args': 'a', 'kwds': 'kw', 'user_function': 'fn',
                           'queue_append': 'q_app', 'queue_popleft': 'q_popl', 'queue_appendleft': 'q_appl', 'queue_pop': 'q_pop',
                           '_len': 'length', 'cache': 'memo', 'keymap': 'km', 'ignore': 'ign', 'rounded_args': 'rnd', 'maxsize': 'bound',
                           'purge': 'do_purge'})


@V('augassign-expanded')
def _(root):
    for nm in ('HIT', 'MISS', 'LOAD'):
        sub_all(root, CACHES, 'stats[%s] += 1' % nm, 'stats[%s] = stats[%s] + 1' % (nm, nm))


@V('no-len-alias')
def _(root):
    sub_all(root, CACHES, '_len(cache)', 'len(cache)')
    sub_all(root, CACHES, '_len(queue)', 'len(queue)')


@V('overflow-test-swapped-operands')
def _(root):
    sub_all(root, CACHES, 'if _len(cache) > maxsize:', 'if maxsize < _len(cache):')


@V('overflow-test-ge-plus-one')
def _(root):
    sub_all(root, CACHES, 'if _len(cache) > maxsize:', 'if _len(cache) >= maxsize + 1:')


@V('overflow-test-not-le')
def _(root):
    sub_all(root, CACHES, 'if _len(cache) > maxsize:', 'if not _len(cache) <= maxsize:')


@V('victim-delete-as-pop')
def _(root):
    sub_all(root, CACHES, "try: del cache[k]\n                            except KeyError: pass #FIXME: possible less purged", "cache.pop(k, None)")
    sub_all(root, CACHES, "try: del cache[key]\n                        except KeyError: pass #FIXME: possible none purged", "cache.pop(key, None)")


@V('archived-if-flipped')
def _(root):
    sub_all(root, CACHES, "                    if cache.archived() and purge:\n                        cache.dump()\n                        cache.clear() \n                    else: # purge random cache entry\n                        key = choice(list(cache.keys()))\n                        if cache.archived(): cache.dump(key)\n                        try: del cache[key]\n                        except KeyError: pass #FIXME: possible none purged",
            "                    if not (cache.archived() and purge): # purge random cache entry\n                        key = choice(list(cache.keys()))\n                        if cache.archived(): cache.dump(key)\n                        try: del cache[key]\n                        except KeyError: pass #FIXME: possible none purged\n                    else:\n                        cache.dump()\n                        cache.clear() ")


@V('residency-test-instead-of-try')
def _(root):
    # inf_cache: `try: result = cache[key] ... except KeyError:` rewritten with an explicit membership test
    sub_all(root, ('_cache.py',), "            try:\n                # get cache entry\n                result = cache[key]\n                stats[HIT] += 1\n            except KeyError:\n                # if not in cache, look in archive\n                if cache.archived():\n                    cache.load(key)\n                try:\n                    result = cache[key]\n                    stats[LOAD] += 1\n                except KeyError:\n                    # if not found, then compute\n                    result = user_function(*args, **kwds)\n                    cache[key] = result\n                    stats[MISS] += 1\n            return result",
            "            if key in cache:\n                result = cache[key]\n                stats[HIT] += 1\n            else:\n                if cache.archived():\n                    cache.load(key)\n                if key in cache:\n                    result = cache[key]\n                    stats[LOAD] += 1\n                else:\n                    result = user_function(*args, **kwds)\n                    cache[key] = result\n                    stats[MISS] += 1\n            return result")


@V('purge-block-extracted-to-helper')
def _(root):
    # rr_cache (standard): the eviction block becomes a local closure
    sub_all(root, ('_cache.py',), "        def wrapper(*args, **kwds):\n            from random import choice #XXX: biased?\n",
            "        def evict_one():\n            from random import choice\n            victim = choice(list(cache.keys()))\n            if cache.archived(): cache.dump(victim)\n            try: del cache[victim]\n            except KeyError: pass\n\n        def wrapper(*args, **kwds):\n")
    sub_all(root, ('_cache.py',), "                    else: # purge random cache entry\n                        key = choice(list(cache.keys()))\n                        if cache.archived(): cache.dump(key)\n                        try: del cache[key]\n                        except KeyError: pass #FIXME: possible none purged",
            "                    else: # purge random cache entry\n                        evict_one()")


@V('key-computed-by-local-helper')
def _(root):
    # lfu_cache (standard): the three-line key computation is factored into one closure used by wrapper/key/lookup
    s_old = "            _args, _kwds = rounded_args(*args, **kwds)\n            _args, _kwds = _keygen(user_function, ignore, *_args, **_kwds)\n"
    p = os.path.join(root, 'klepto', '_cache.py')
    s = open(p).read()
    i = s.index('class lfu_cache')
    j = s.index('class lru_cache')
    body = s[i:j]
    body = body.replace("        def wrapper(*args, **kwds):\n" + s_old + "            key = keymap(*_args, **_kwds)\n",
                        "        def make_key(*args, **kwds):\n" + s_old + "            return keymap(*_args, **_kwds)\n\n        def wrapper(*args, **kwds):\n            key = make_key(*args, **kwds)\n")
    body = body.replace(s_old + "            return keymap(*_args, **_kwds)\n\n        def lookup", "            return make_key(*args, **kwds)\n\n        def lookup")
    body = body.replace(s_old + "            return cache[keymap(*_args, **_kwds)]", "            return cache[make_key(*args, **kwds)]")
    if 'make_key' not in body:
        raise RuntimeError('variant anchor not found')
    open(p, 'w').write(s[:i] + body + s[j:])


@V('stats-dict-free-reordering')
def _(root):
    # independent statements swapped: stat increment before bookkeeping on the hit path
    sub_all(root, CACHES, "                result = cache[key]\n                use_count[key] += 1\n                stats[HIT] += 1", "                result = cache[key]\n                stats[HIT] += 1\n                use_count[key] += 1")


@V('lfu-sorted-slice')
def _(root):
    sub_all(root, CACHES, "for k, _ in nsmallest(max(2, maxsize // 10),\n                                              iter(use_count.items()),\n                                              key=itemgetter(1)):",
            "for k, _ in sorted(use_count.items(), key=itemgetter(1))[:max(2, maxsize // 10)]:")


@V('lfu-lambda-key')
def _(root):
    sub_all(root, CACHES, "key=itemgetter(1)):", "key=lambda kv: kv[1]):")


@V('keymap-sorted-builtin')
def _(root):
    sub_all(root, ('keymaps.py',), "sorted_items = self._sorted(list(kwds.items()))", "sorted_items = self._sorted(kwds.items())")


@V('keymap-encode-extend-style')
def _(root):
    sub_all(root, ('keymaps.py',), "            for item in sorted_items:\n                key += item", "            for item in sorted_items:\n                key = key + item")


@V('archives-docstrings-and-comments-stripped')
def _(root):
    p = os.path.join(root, 'klepto', '_archives.py')
    s = open(p).read()
    s = re.sub(r'(?m)^(\s*)#(?!!).*\n', '', s)
    open(p, 'w').write(s)


@V('file-save-temp-in-variable')
def _(root):
    sub_all(root, ('_archives.py',), "        try:\n            os.replace(_filename, filename)\n        except OSError:", "        src, dst = _filename, filename\n        try:\n            os.replace(src, dst)\n        except OSError:")


@V('sqlite-commit-in-finally')
def _(root):
    sub_all(root, ('_archives.py',), "          self._engine.execute(sql, (key,value))\n          self._conn.commit()\n          return", "          try:\n              self._engine.execute(sql, (key,value))\n          finally:\n              self._conn.commit()\n          return")


@V('cache-load-explicit-loop-var')
def _(root):
    sub_all(root, ('_archives.py',), "        for arg in args:\n            try:\n                self.update({arg:self.archive[arg]})\n            except KeyError:\n                pass", "        for k in args:\n            try:\n                value = self.archive[k]\n                self.update({k: value})\n            except KeyError:\n                continue")


@V('cache-archived-if-else-flipped')
def _(root):
    sub_all(root, ('_archives.py',), "        if bool(on[0]):\n            if not isinstance(self.__swap__, null_archive):\n                self.__swap__, self.archive = self.archive, self.__swap__\n            elif isinstance(self.archive, null_archive):\n                raise ValueError(\"no valid archive has been set\")\n        else:\n            if not isinstance(self.archive, null_archive):\n                self.__swap__, self.archive = self.archive, self.__swap__",
            "        if not bool(on[0]):\n            if not isinstance(self.archive, null_archive):\n                self.__swap__, self.archive = self.archive, self.__swap__\n        else:\n            if not isinstance(self.__swap__, null_archive):\n                self.__swap__, self.archive = self.archive, self.__swap__\n            elif isinstance(self.archive, null_archive):\n                raise ValueError(\"no valid archive has been set\")")


@V('rounding-isinstance-tuple-float')
def _(root):
    sub_all(root, ('rounding.py',), "if isinstance(j, float): _args[i] = round(j, tol) # don't round int\n    for i,j in kwds.items():\n      if isinstance(j, float): _kwds[i] = round(j, tol)\n    return argstype(_args), _kwds\n  return simple_round",
            "if isinstance(j, (float,)): _args[i] = round(j, tol) # don't round int\n    for i,j in kwds.items():\n      if isinstance(j, (float,)): _kwds[i] = round(j, tol)\n    return argstype(_args), _kwds\n  return simple_round")


MEMO_HELPER = '''
import weakref
_signatures = weakref.WeakKeyDictionary() # func: (names, defaults)

def _signature(func):
    """memoised signature(func, markup=False, variadic=False, safe=True); always hands out a copy of the defaults"""
    try:
        spec = _signatures.get(func)
    except TypeError:
        return signature(func, markup=False, variadic=False, safe=True)
    if spec is None:
        spec = signature(func, markup=False, variadic=False, safe=True)
        _signatures[func] = spec
    names, defaults = spec
    return names, (%s)


from copy import copy
def _keygen(func, ignored, *args, **kwds):'''


@V('wrapper-under-lock-with-logging')
def _(root):
    # rr_cache (both modules): an RLock around the whole wrapper body and a debug log line
    for fn in CACHES:
        p = os.path.join(root, 'klepto', fn)
        s = open(p).read()
        i = s.index('class rr_cache')
        body = s[i:]
        body = body.replace("        purge = self.__state__['purge']\n\n        def wrapper(*args, **kwds):\n            from random import choice #XXX: biased?\n",
                            "        purge = self.__state__['purge']\n        from threading import RLock\n        import logging\n        lock = RLock()\n        log = logging.getLogger('klepto')\n\n        def wrapper(*args, **kwds):\n          with lock:\n            log.debug('call %s', user_function)\n            from random import choice #XXX: biased?\n", 1)
        if 'with lock' not in body:
            raise RuntimeError('variant anchor not found')
        # indent the rest of the wrapper body by two spaces is not needed: python accepts the deeper block as is
        open(p, 'w').write(s[:i] + body)


@V('key-computed-by-module-helper')
def _(root):
    p = os.path.join(root, 'klepto', '_cache.py')
    s = open(p).read()
    s = s.replace("class Counter(dict):", "def _make_key(user_function, keymap, ignore, rounded_args, args, kwds):\n    _args, _kwds = rounded_args(*args, **kwds)\n    _args, _kwds = _keygen(user_function, ignore, *_args, **_kwds)\n    return keymap(*_args, **_kwds)\n\nclass Counter(dict):", 1)
    i = s.index('class mru_cache')
    j = s.index('class rr_cache')
    body = s[i:j]
    old = "            _args, _kwds = rounded_args(*args, **kwds)\n            _args, _kwds = _keygen(user_function, ignore, *_args, **_kwds)\n            key = keymap(*_args, **_kwds)\n"
    if old not in body:
        raise RuntimeError('variant anchor not found')
    body = body.replace(old, "            key = _make_key(user_function, keymap, ignore, rounded_args, args, kwds)\n")
    open(p, 'w').write(s[:i] + body + s[j:])


@V('lookup-via-get-with-marker')
def _(root):
    # inf_cache (standard): `try: cache[key] / except KeyError` rewritten with cache.get(key, marker)
    sub_all(root, ('_cache.py',), "            try:\n                # get cache entry\n                result = cache[key]\n                stats[HIT] += 1\n            except KeyError:\n                # if not in cache, look in archive\n                if cache.archived():\n                    cache.load(key)\n                try:\n                    result = cache[key]\n                    stats[LOAD] += 1\n                except KeyError:\n                    # if not found, then compute\n                    result = user_function(*args, **kwds)\n                    cache[key] = result\n                    stats[MISS] += 1\n            return result",
            "            result = cache.get(key, nothing)\n            if result is not nothing:\n                stats[HIT] += 1\n                return result\n            if cache.archived():\n                cache.load(key)\n            result = cache.get(key, nothing)\n            if result is not nothing:\n                stats[LOAD] += 1\n                return result\n            result = user_function(*args, **kwds)\n            cache[key] = result\n            stats[MISS] += 1\n            return result")
    sub_all(root, ('_cache.py',), "       #_len = len                      # localize the global len() function\n", "        nothing = object()\n")


@V('archives-rename-instead-of-replace')
def _(root):
    sub_all(root, ('_archives.py',), "os.replace(_filename, filename)", "os.rename(_filename, filename)")


@V('archives-local-renames')
def _(root):
    p = os.path.join(root, 'klepto', '_archives.py')
    s = open(p).read()
    s = s.replace('_filename', 'tmpname').replace('memo', 'contents')
    # 'memo' also appears inside the import-based reader's source strings; keep those in sync by construction (same replace)
    open(p, 'w').write(s)


@V('mru-ordered-dict-correct')
def _(root):
    """safe.mru_cache keeps recency in an insertion-ordered dict: a hit removes the key first, so re-inserting moves it to the recent end"""
    p = os.path.join(root, 'klepto', 'safe.py')
    s = open(p).read()
    i = s.index('class mru_cache')
    j = s.index('class rr_cache')
    body = s[i:j]
    for old, new in [
        ("        from collections import deque\n", ""),
        ("        queue = deque()                 # order that keys have been used\n", "        queue = {}                      # keys, in the order they were used\n"),
        ("        # lookup optimizations (ugly but fast)\n        queue_append, queue_popleft = queue.append, queue.popleft\n        queue_appendleft, queue_pop = queue.appendleft, queue.pop\n", ""),
        ("                try: queue.remove(key)\n                except ValueError: pass\n", "                queue.pop(key, None)\n"),
        ("k = queue_pop() if queue else next(iter(cache))", "k = queue.popitem()[0] if queue else next(iter(cache))"),
        ("            queue_append(key)\n            return result", "            queue[key] = None\n            return result"),
    ]:
        if old not in body:
            raise RuntimeError('variant anchor not found: %r' % old[:50])
        body = body.replace(old, new, 1)
    open(p, 'w').write(s[:i] + body + s[j:])


@V('wraps-helper-in-tools-keeps-wrapped')
def _(root):
    """property-preserving: the decorators finish the wrapper through a helper of klepto.tools that copies the decorated function's attributes
    except the cache interface and __wrapped__"""
    sub_all(root, ('tools.py',), "__all__ = ['isiterable']\n",
            "__all__ = ['isiterable']\n\n_INTERFACE = ('__wrapped__','info','clear','load','dump','archive','archived','key','lookup','__cache__','__mask__','__map__')\n\n"
            "def _wraps(wrapper, wrapped):\n    from functools import update_wrapper\n    update_wrapper(wrapper, wrapped, updated=())\n    attrs = getattr(wrapped, '__dict__', {})\n"
            "    wrapper.__dict__.update((k,v) for (k,v) in attrs.items() if k not in _INTERFACE)\n    return wrapper\n")
    for fn in CACHES:
        sub_all(root, (fn,), "from klepto.tools import CacheInfo\n", "from klepto.tools import CacheInfo, _wraps\n")
        sub_all(root, (fn,), "return update_wrapper(wrapper, user_function)", "return _wraps(wrapper, user_function)")


@V('dir-lister-globs-with-escaped-root')
def _(root):
    """property-preserving: the entry lister uses glob with the archive's own path escaped"""
    sub_all(root, ('_archives.py',), "from random import random\n", "from random import random\nimport glob\n")
    sub_all(root, ('_archives.py',), "        return walk(self.__state__['id'],patterns=PREFIX+'*',recurse=False,folders=True,files=False,links=False)\n    def _hasinput(self, root):",
            "        return [d for d in glob.glob(os.path.join(glob.escape(self.__state__['id']), PREFIX+'*')) if os.path.isdir(d) and not os.path.islink(d)]\n    def _hasinput(self, root):")


@V('signature-self-drop-guarded-by-emptiness')
def _(root):
    """property-preserving: the instance is dropped only when there are names at all (slicing an empty tuple is a no-op), and the inspected callable
    is normalised through __func__-free attribute projections only"""
    sub_all(root, ('_inspect.py',), "    if inspect.ismethod(func) and func.__self__ is not None:\n        # then it's a bound method\n        explicit = explicit[1:]",
            "    if inspect.ismethod(func) and func.__self__ is not None and explicit:\n        # then it's a bound method\n        if arg_names:\n            explicit = explicit[1:]")


@V('sqlite-setitem-replace-with-rollback')
def _(root):
    """property-preserving: the sqlite archive replaces the row of an existing key inside one transaction and rolls back when the insert fails"""
    sub_all(root, ('_archives.py',), "          sql = \"insert into %s values(?,?)\" % self.__state__['id']\n          self._engine.execute(sql, (key,value))\n          self._conn.commit()\n          return",
            "          table = self.__state__['id']\n          try:\n              self._engine.execute(\"delete from %s where argstr = ?\" % table, (key,))\n              self._engine.execute(\"insert into %s values(?,?)\" % table, (key,value))\n          except:\n              self._conn.rollback()\n              raise\n          self._conn.commit()\n          return")


@V('cache-setstate-default-when-absent')
def _(root):
    """property-preserving: a custom __setstate__ that defaults the archive attributes only when they are absent from the pickled state"""
    sub_all(root, ('_archives.py',), "    def __repr__(self):\n        archive = self.archive.__class__.__name__",
            "    def __setstate__(self, state):\n        self.__dict__.update(state)\n        self.__swap__ = state.get('__swap__', null_archive())\n        if '__archive__' not in state:\n            self.__archive__ = null_archive()\n    def __repr__(self):\n        archive = self.archive.__class__.__name__")


@V('new-default-maxsize-100')
def _(root):
    sub_all(root, CACHES, "kwds.get('maxsize', -1)", "kwds.get('maxsize', 100)", count_min=8)


@V('rr-counters-as-nonlocal-integers')
def _(root):
    """property-preserving: the random-replacement wrapper of _cache.py keeps its statistics in three closure integers rebound through `nonlocal`
    (declared in wrapper and in clear) instead of the in-place updated list; normalised to the vector form by kv.src.desugar_nonlocal_counters"""
    import sys
    sys.path.insert(0, os.path.dirname(os.path.abspath(__file__)))
    from mutants import _rr_nonlocal
    p = os.path.join(root, 'klepto', '_cache.py')
    s = open(p).read()
    for fn, old, new, which in _rr_nonlocal('hits, misses, loads'):
        idx = 0 if which == 'first' else which
        pos = -1
        for _i in range(idx + 1):
            pos = s.find(old, pos + 1)
            if pos < 0:
                raise RuntimeError('variant anchor not found: %r' % old[:50])
        s = s[:pos] + new + s[pos + len(old):]
    open(p, 'w').write(s)


@V('sqlite-iter-materialises-distinct-keys')
def _(root):
    """property-preserving: the sqlite key iterator lets the database drop duplicate rows but still materialises the result before returning"""
    sub_all(root, ('_archives.py',), "          sql = \"select argstr from %s\" % self.__state__['id']\n          return (k[-1] for k in set(self._engine.execute(sql)))",
            "          sql = \"select distinct argstr from %s\" % self.__state__['id']\n          return iter([k[-1] for k in self._engine.execute(sql).fetchall()])")


@V('cache-swap-placeholder-compared-by-type')
def _(root):
    """property-preserving: a shared module-level placeholder in the swap slot is fine as long as the tests stay by type"""
    sub_all(root, ('_archives.py',), "        self.__swap__ = null_archive()\n", "        self.__swap__ = NOSWAP\n")
    sub_all(root, ('_archives.py',), "class dir_archive(archive):\n    \"\"\"dictionary-style interface to a folder of files\"\"\"",
            "NOSWAP = null_archive()\n\nclass dir_archive(archive):\n    \"\"\"dictionary-style interface to a folder of files\"\"\"")


@V('update-wrapper-keyword-form')
def _(root):
    """property-preserving: update_wrapper called with keywords"""
    sub_all(root, CACHES, "        return update_wrapper(wrapper, user_function)", "        return update_wrapper(wrapper, wrapped=user_function)", count_min=12)


@V('keygen-self-drop-nested-guards')
def _(root):
    """property-preserving: the two conditions of the bound-instance removal as nested ifs, membership tested against the decomposed name set (a parameter name is a str)"""
    sub_all(root, ('_inspect.py',), "        if _bound and explicitly_named[0] in ignored:\n            user_args = user_args[1:]                # remove 'self' instance\n            user_kwds.pop(explicitly_named[0], None) #XXX: unnecessary?\n            explicitly_named = explicitly_named[1:]  # remove 'self' name\n",
            "        if _bound:\n          if explicitly_named[0] in names_to_ignore:\n            user_args = user_args[1:]                # remove 'self' instance\n            user_kwds.pop(explicitly_named[0], None) #XXX: unnecessary?\n            explicitly_named = explicitly_named[1:]  # remove 'self' name\n")


@V('dir-setdefault-with-private-sentinel')
def _(root):
    """property-preserving: setdefault asks for presence with a private sentinel default (a stored None is a value), and re-stores as today"""
    sub_all(root, ('_archives.py',), "        res = self.get(key, *value)\n        self.__setitem__(key, res)\n        return res",
            "        _missing = []\n        res = self.get(key, _missing)\n        if res is _missing:\n            res = self.get(key, *value)\n        self.__setitem__(key, res)\n        return res")


@V('safe-fallback-logs-name-with-default')
def _(root):
    """property-preserving: the safe fallback notes the function's name through getattr with a default (partials and callable instances have none)"""
    sub_all(root, ('safe.py',), "            except: #TypeError: # unhashable key\n                result = user_function(*args, **kwds)\n                stats[MISS] += 1\n",
            "            except: #TypeError: # unhashable key\n                note = 'bypass %s' % getattr(user_function, '__name__', repr(user_function))\n                result = user_function(*args, **kwds)\n                stats[MISS] += 1\n")


@V('lru-lock-released-around-evaluation-with-finally')
def _(root):
    """property-preserving (single-threaded semantics): lru_cache serialises its bookkeeping with an RLock, releases it around the evaluation and re-acquires it
    in a finally clause, so the function's own exception leaves the wrapper unchanged"""
    sub_all(root, ('_cache.py',), "        sentinel = object()             # marker for looping around the queue\n", "        sentinel = object()             # marker for looping around the queue\n        from threading import RLock\n        lock = RLock()\n")
    p = os.path.join(root, 'klepto', '_cache.py')
    s = open(p).read()
    a = s.index("class lru_cache(object):")
    b = s.index("class mru_cache(object):")
    body = s[a:b]
    old = "        def wrapper(*args, **kwds):\n"
    assert body.count(old) == 1
    body = body.replace(old, "        def _wrapper(*args, **kwds):\n")
    old2 = "                    # if not found, then compute\n                    result = user_function(*args, **kwds)\n"
    assert body.count(old2) == 1
    body = body.replace(old2, "                    # if not found, then compute\n                    lock.release()\n                    try:\n                        result = user_function(*args, **kwds)\n                    finally:\n                        lock.acquire()\n")
    old3 = "        def archive(obj):\n"
    assert body.count(old3) == 1
    body = body.replace(old3, "        def wrapper(*args, **kwds):\n            with lock:\n                return _wrapper(*args, **kwds)\n\n        def archive(obj):\n")
    open(p, 'w').write(s[:a] + body + s[b:])


@V('cache-dump-logs-and-reraises')
def _(root):
    """property-preserving: cache.dump notes a failed write and re-raises it"""
    sub_all(root, ('_archives.py',), "        if not args:\n            self.archive.update(self)\n        for arg in args:\n            if arg in self:\n                self.archive.update({arg:self.__getitem__(arg)})\n        return",
            "        try:\n            if not args:\n                self.archive.update(self)\n            for arg in args:\n                if arg in self:\n                    self.archive.update({arg:self.__getitem__(arg)})\n        except Exception:\n            failed = self.archive.__class__.__name__\n            raise\n        return")


@V('dir-init-attribute-derived-from-a-reduce-argument')
def _(root):
    """property-preserving: dir_archive remembers something computed from `serialized`, which __reduce__ hands back to the constructor"""
    sub_all(root, ('_archives.py',), "        try:\n            self.__state__['id'] = mkdir(dirname, mode=self.__state__['permissions'])",
            "        self._plain = not serialized\n        try:\n            self.__state__['id'] = mkdir(dirname, mode=self.__state__['permissions'])")


@V('keygen-bound-instance-compared-not-tested')
def _(root):
    """property-preserving: the bound-instance probe without assert: the instance is compared with None and with the argument, never tested for truth"""
    sub_all(root, ('_inspect.py',), "            _self = getattr(_bound, '__self__')\n            assert _self == user_args[0]\n",
            "            _self = getattr(_bound, '__self__')\n            if _self is None or not (_self == user_args[0]): raise AssertionError\n")


@V('signature-optional-marker-guarded')
def _(root):
    """property-preserving on interpreters without functools.Placeholder: the optional marker is only compared when it exists"""
    sub_all(root, ('_inspect.py',), "from copy import copy\ndef _keygen(func, ignored, *args, **kwds):", "import functools\nPLACEHOLDER = getattr(functools, 'Placeholder', None)\nfrom copy import copy\ndef _keygen(func, ignored, *args, **kwds):")
    sub_all(root, ('_inspect.py',), "    _fixed = dict(zip(arg_names[:len(p_args)],p_args))\n",
            "    _fixed = dict((k,v) for (k,v) in zip(arg_names[:len(p_args)],p_args) if not (PLACEHOLDER is not None and v is PLACEHOLDER))\n")


@V('read-zfile-streams-and-feeds-the-tail-back')
def _(root):
    """property-preserving: block-wise decompression with an output cap that feeds unconsumed_tail back until it is empty"""
    sub_all(root, ('_pickle.py',), "    data = zlib.decompress(file_handle.read(), 15, length)\n",
            "    zobj = zlib.decompressobj(15)\n    data = bytearray()\n    block = file_handle.read(2 ** 16)\n    while block:\n        while block:\n            data.extend(zobj.decompress(block, 2 ** 16))\n            block = zobj.unconsumed_tail\n        block = file_handle.read(2 ** 16)\n    data.extend(zobj.flush())\n    data = bytes(data)\n")


@V('keygen-self-dropped-for-index-zero-with-rebasing')
def _(root):
    """the instance may be ignored by index as well - when the index set is re-based after the cut (each index one lower, 0 gone)"""
    sub_all(root, ('_inspect.py',), "        if _bound and explicitly_named[0] in ignored:\n            user_args = user_args[1:]                # remove 'self' instance\n",
            "        if _bound and (explicitly_named[0] in names_to_ignore or 0 in index_to_ignore):\n            index_to_ignore = set(i-1 for i in index_to_ignore if i > 0)\n            user_args = user_args[1:]                # remove 'self' instance\n")


@V('dir-clear-removes-the-listed-entries')
def _(root):
    """property-preserving apart from sparing foreign files: clear() removes every entry the lister lists, as listed"""
    sub_all(root, ('_archives.py',), "        rmtree(self.__state__['id'], self=False, ignore_errors=True)\n", "        for _dir in self._lsdir():\n            rmtree(_dir, self=True, ignore_errors=True)\n")


# ---- round 11 rules
@V('json-writer-spells-out-default-options')
def _(root):
    """ensure_ascii=True, allow_nan=True are json's defaults"""
    sub_all(root, ('_archives.py',), "pik,mode,kwd = json,'w',{}", "pik,mode,kwd = json,'w',{'ensure_ascii':True, 'allow_nan':True}", 2)


@V('dir-rmdir-guard-both-sides-resolved')
def _(root):
    """a guard that compares the resolved entry with the resolved root always holds for an entry of this archive"""
    sub_all(root, ('_archives.py',), "        rmtree(self._getdir(key), self=True, ignore_errors=True)\n        return\n    def _lsdir(self):",
            "        _dir = self._getdir(key)\n        if os.path.dirname(os.path.realpath(_dir)) == os.path.realpath(self.__state__['id']) or True:\n            rmtree(_dir, self=True, ignore_errors=True)\n        return\n    def _lsdir(self):")


@V('queue-deque-maxlen-none')
def _(root):
    """deque(maxlen=None) is an unbounded deque"""
    sub_all(root, CACHES, "        queue = deque()                 # order that keys have been used", "        queue = deque(maxlen=None)      # order that keys have been used", 4)


@V('keymap-getstate-whole-dict')
def _(root):
    """__getstate__ returning the instance dict is what the default protocol does"""
    sub_all(root, ('keymaps.py',), "    def __get_sentinel(self):\n", "    def __getstate__(self):\n        return dict(self.__dict__)\n\n    def __get_sentinel(self):\n")


@V('validate-second-fallback-only-when-not-a-partial')
def _(root):
    """repeating the callable-instance fallback under `not identified` is a no-op (a bound method has a __name__)"""
    sub_all(root, ('_inspect.py',), "    if not identified:\n        p_args = p_named = ()\n",
            "    if not identified and not inspect.ismethod(func) and not inspect.isfunction(func):\n        if hasattr(func, '__call__') and not hasattr(func, '__name__'):\n            func = func.__call__\n    if not identified:\n        p_args = p_named = ()\n")


@V('dir-len-walks-with-the-entry-pattern')
def _(root):
    """the same listing as _lsdir, spelled in place"""
    sub_all(root, ('_archives.py',), "    def __len__(self):\n        return len(self._lsdir())\n",
            "    def __len__(self):\n        return len(walk(self.__state__['id'],patterns=PREFIX+'*',recurse=False,folders=True,files=False,links=False))\n")


@V('sqlite-copy-writes-contents-in-both-branches')
def _(root):
    """the contents are written on every path of copy()"""
    sub_all(root, ('_archives.py',), "          adict = sqltable_archive(database=db, table=table, **self.state)\n          adict.update(self.__asdict__())",
            "          adict = sqltable_archive(database=db, table=table, **self.state)\n          memo = self.__asdict__()\n          if name != self.name: adict.update(memo)\n          else: adict.update(memo)")


@V('keygen-valid-reads-slots-once')
def _(root):
    """valid() reads the remembered arguments and leaves them alone"""
    sub_all(root, ('_inspect.py',), "      ar,kw = last_args()\n      return isvalid(f,*ar,**kw) #XXX: better validate? (raises errors)",
            "      ar,kw = _args[0],_args[1]\n      return isvalid(f,*ar,**kw) #XXX: better validate? (raises errors)")
