#!/usr/bin/env python3
"""Self-test of the checker (not part of any registered check).

  kill matrix : single-edit mutants of /repo/klepto, each must (a) still compile and (b) make the named
                property check exit 1 with the named rule in a VIOLATION report
  silence set : behaviour-preserving variants on which every check must exit 0

Scratch copies live under a temp dir and are removed as each variant finishes.
usage: python3 selftest/run.py [--jobs 16] [--only kill|silence] [--filter substr] [-v]
"""
import argparse
import ast
import io
import json
import os
import py_compile
import re
import shutil
import subprocess
import sys
import tempfile
import contextlib
from concurrent.futures import ProcessPoolExecutor

HERE = os.path.dirname(os.path.abspath(__file__))
VERIF = os.path.dirname(HERE)
sys.path.insert(0, VERIF)
sys.path.insert(0, HERE)
REPO = os.environ.get('KV_REPO', '/repo')
ALL_PROPS = ['C01', 'C02', 'C03', 'C04', 'C05', 'C06', 'C07', 'C08', 'C09', 'C10', 'C11', 'C12', 'C13', 'C14', 'C15', 'C16', 'C17', 'C18', 'C19', 'C20']


def make_copy(tag):
    root = tempfile.mkdtemp(prefix='kvself_%s_' % re.sub(r'\W+', '_', tag)[:40])
    os.makedirs(os.path.join(root, 'klepto'))
    for fn in os.listdir(os.path.join(REPO, 'klepto')):
        if fn.endswith('.py'):
            shutil.copy2(os.path.join(REPO, 'klepto', fn), os.path.join(root, 'klepto', fn))
    return root


def run_checks(root, props):
    """returns {prop: (exit code, output)}; evidence goes to the scratch dir"""
    os.environ['KV_OUTROOT'] = os.path.join(root, '_out')
    os.environ['KV_REPO'] = root
    os.environ['KV_NO_LIVENESS'] = '1'
    from kv import checks
    from kv.src import AnalysisError
    res = {}
    for p in props:
        buf = io.StringIO()
        with contextlib.redirect_stdout(buf):
            try:
                rc = checks.run(p, 'quick', root)
            except AnalysisError as e:
                print('ANALYSIS-ERROR %s' % e)
                rc = 2
            except Exception as e:      # internal error
                import traceback
                traceback.print_exc(file=buf)
                rc = 3
        res[p] = (rc, buf.getvalue())
    return res


def apply_edit(root, edit):
    """edit = (file, old, new, which) ; which = 'all' | int index | 'first'"""
    fn, old, new, which = edit
    path = os.path.join(root, 'klepto', fn)
    s = open(path).read()
    n = s.count(old)
    if n == 0:
        raise RuntimeError('mutant anchor not found in %s: %r' % (fn, old[:60]))
    if which == 'all':
        s = s.replace(old, new)
    else:
        idx = 0 if which == 'first' else which
        pos = -1
        for _ in range(idx + 1):
            pos = s.find(old, pos + 1)
            if pos < 0:
                raise RuntimeError('mutant anchor occurrence %s not found in %s' % (which, fn))
        s = s[:pos] + new + s[pos + len(old):]
    open(path, 'w').write(s)


def job_kill(m):
    root = make_copy(m['id'])
    try:
        for e in m['edits']:
            apply_edit(root, e)
        for e in m['edits']:
            py_compile.compile(os.path.join(root, 'klepto', e[0]), doraise=True)
        res = run_checks(root, m['props'])
        ok = True
        msgs = []
        for p in m['props']:
            rc, out = res[p]
            fired = rc == 1 and ('VIOLATION property=%s' % p) in out
            rule_ok = ('RULE %s' % m['rule']) in out if m.get('rule') else True
            if not (fired and rule_ok):
                ok = False
                msgs.append('%s rc=%d rule %s %s' % (p, rc, m.get('rule'), 'named' if rule_ok else 'NOT named'))
                if rc >= 2:
                    msgs.append(out.strip().splitlines()[-1] if out.strip() else '')
        return (m['id'], ok, '; '.join(msgs))
    except Exception as e:
        return (m['id'], False, 'ERROR %s: %s' % (type(e).__name__, e))
    finally:
        shutil.rmtree(root, ignore_errors=True)


def job_silence(vid):
    from variants import VARIANTS
    v = [x for x in VARIANTS if x['id'] == vid][0]
    root = make_copy(v['id'])
    try:
        v['fn'](root)
        for fn in os.listdir(os.path.join(root, 'klepto')):
            py_compile.compile(os.path.join(root, 'klepto', fn), doraise=True)
        res = run_checks(root, ALL_PROPS)
        bad = []
        for p, (rc, out) in res.items():
            if rc != 0:
                lines = [l for l in out.splitlines() if l.startswith(('RULE', 'ANALYSIS', 'Traceback')) or 'Error' in l]
                bad.append('%s rc=%d %s' % (p, rc, ' | '.join(lines[:2])[:300]))
        return (v['id'], not bad, '; '.join(bad))
    except Exception as e:
        import traceback
        return (v['id'], False, 'ERROR %s: %s' % (type(e).__name__, e))
    finally:
        shutil.rmtree(root, ignore_errors=True)


def main():
    ap = argparse.ArgumentParser()
    ap.add_argument('--jobs', type=int, default=16)
    ap.add_argument('--only', default=None)
    ap.add_argument('--filter', default='')
    ap.add_argument('-v', action='store_true')
    a = ap.parse_args()
    from mutants import MUTANTS
    from variants import VARIANTS
    failed = 0
    if a.only in (None, 'kill'):
        ms = [m for m in MUTANTS if a.filter in m['id']]
        with ProcessPoolExecutor(a.jobs) as ex:
            results = list(ex.map(job_kill, ms))
        k = sum(1 for r in results if r[1])
        print('kill matrix: %d/%d mutants detected with the expected rule' % (k, len(results)))
        for r in results:
            if not r[1] or a.v:
                print('  %s %s %s' % ('ok  ' if r[1] else 'MISS', r[0], r[2]))
        failed += len(results) - k
    if a.only in (None, 'silence'):
        vs = [v for v in VARIANTS if a.filter in v['id']]
        with ProcessPoolExecutor(a.jobs) as ex:
            results = list(ex.map(job_silence, [v['id'] for v in vs]))
        k = sum(1 for r in results if r[1])
        print('silence set: %d/%d behaviour-preserving variants pass every check' % (k, len(results)))
        for r in results:
            if not r[1] or a.v:
                print('  %s %s %s' % ('ok  ' if r[1] else 'ALARM', r[0], r[2]))
        failed += len(results) - k
    return 1 if failed else 0


if __name__ == '__main__':
    sys.exit(main())
