COMMON = '''You are an experienced maintainer of the Python library klepto (memoization: cache decorators, keymaps, dict-style archives).
Your scratch git worktree of the repository is WT (a detached checkout; work ONLY there; never touch /repo or /verif; do NOT use `git stash` - it is
shared between worktrees).  Python with the library's dependencies is /venv/bin/python; run things with PYTHONPATH=WT.
The test suite: cd WT && PYTHONPATH=WT /venv/bin/python -m pytest -q -p no:cacheprovider --timeout=900 --continue-on-collection-errors
(46 tests pass, 7 always fail because sqlalchemy / h5py / pandas are not installed - that is the baseline).  There is no network.

TASK.  Write FIVE independent, *correct* commits in the area given below.  This round is about four kinds of commit, done RIGHT:
  (a) DEPENDENCY REPLACEMENT: a third-party / home-grown helper replaced by a standard-library equivalent (pox.mkdir / rmtree / walk -> os / shutil / glob /
      pathlib; random() names -> uuid / secrets; klepto.tools helpers -> functools / inspect equivalents), with every corner kept (return values, absolute
      paths, what is created, what is listed - hidden and staging entries, ordering, exceptions);
  (b) MODERN-PYTHON REFACTOR: pathlib, dataclass / NamedTuple, enum markers, walrus, dict merges, f-strings, contextlib, keyword-only parameters, removal
      of Python-2 shims, super() - strictly equivalent at run time (same keys, same files, same pickles, same exceptions);
  (c) DEPRECATION / RENAMING with a compatibility shim: a renamed option / attribute / method / state key whose old spelling keeps working everywhere
      (constructors, `state` round trips, __reduce__, old pickles, both decorator modules, subclasses), optionally with a DeprecationWarning that is
      emitted only when the OLD spelling is used;
  (d) MICRO-OPTIMISATION: executemany / one transaction, lazy imports, avoiding a copy or a re-read, lazily iterating, reusing a handle - where the
      saved work is provably never needed, and nothing observable changes (results, keys, rows / files on disk, exceptions, statistics, eviction order).
Unlike a careless version of the same commit, yours regresses NOTHING: every input, call history, option combination, pickling round trip, process
boundary and failure behaves exactly as before.  Aim at 10-60 changed lines each.  Say in the note which careless version you avoided and why it
would have been wrong.

Themes for your area (use each theme at most once; you may replace up to two by commits of your own of kinds (a)-(d); if a theme cannot be done
without changing behaviour, say so in a note and do another one instead):
THEMES

For EACH commit k = 1..5:
 1. start from a clean tree (`git -C WT checkout -- . && git -C WT clean -fdq -e out`), make the change;
 2. run the test suite: still 46 passed;
 3. write a probe script WT/out/probe<k>.py that exercises the touched behaviour broadly (many inputs and option combinations, edge cases: empty,
    None, falsy values, partials and callable instances, methods, keys containing separators / odd characters, equal-but-different keys such as 1 / 1.0 /
    True, pickling round trips with dill, relative paths and chdir, several processes or threads and failure injection where relevant) and prints a
    deterministic transcript; run it on the unchanged tree and on the changed tree and confirm the transcripts are byte-identical (for kind (c): lines
    that exercise the NEW spelling are prefixed "NEW:" and exempt);
 4. save the change as WT/out/<k>.diff  (`git -C WT diff > WT/out/<k>.diff`, paths relative to the repo root, must apply with `patch -p1`; do not
    include changes under klepto/tests) and a note WT/out/<k>.md: what the commit does, which careless version you avoided, how you verified.
 5. restore the clean tree.
Keep out/ small (delete transcripts larger than 1 MB when done).  Keep your messages short.  Finish with a short list of the five titles.'''
AREAS = {
1: ('klepto/_cache.py and klepto/safe.py (the cache decorators)', '''
 - (b) replace the `stats = [0, 0, 0]` list + HIT/MISS/LOAD indices by something more readable WITHOUT changing what info() reports, what clear(keepstats) resets, or how the closure pickles with dill;
 - (b) remove Python-2 leftovers and `#PYTHON3` shims; use `super()`-free explicit clean-ups only where identical;
 - (d) avoid building `list(cache.keys())` for rr_cache's random victim only if the draw stays exactly `choice(list(cache.keys()))`-equivalent for the same random state (otherwise document why not and do another one);
 - (d) hoist invariant lookups out of the wrapper (bound methods, state reads) ONLY where the object can never be re-bound afterwards (cache.archive can be swapped at run time - do not snapshot it);
 - (c) accept `maxsize` also under a clearer alias for the keyword (e.g. `size=`) with the old one working positionally and by keyword, through __new__ dispatch (0 / None) AND __reduce__;
 - (a) replace `from random import choice` uses / Counter helper by stdlib spellings that behave identically (collections.Counter.update ADDS - beware).'''),
2: ('klepto/_inspect.py (signature, validate, isvalid, keygen, _keygen)', '''
 - (b) rewrite parts of signature() with clearer local names / early returns, keeping every return value (also the `safe=True` failure tuples) identical for functions, methods, partials, callable instances, builtins and classes;
 - (b) use keyword-only parameters for the option flags of signature() ONLY if no internal or documented caller passes them positionally (check) - otherwise keep;
 - (a) replace home-grown pieces by inspect / functools equivalents where exactly equivalent (e.g. getfullargspec fields), never switching to inspect.signature semantics (it follows __wrapped__, handles partials differently);
 - (d) avoid recomputing signature(func) twice in validate() / _keygen where the result is provably the same object-independent value;
 - (c) rename keygen's `ignored` handling helper or add an alias `klepto.keygen(ignore=...)` keyword that is equivalent to the positional spelling, with the positional one unchanged;
 - (b) replace the bare `except:` around the bound-instance probe by the narrowest form that is STILL equivalent for every object (properties that raise arbitrary exceptions on getattr must keep working) - or document why it must stay.'''),
3: ('klepto/keymaps.py and klepto/crypto.py', '''
 - (b) turn the module-level marker objects (SENTINEL / NOSENTINEL / NULL-like) into something with a stable repr and identity across pickling ONLY if keys produced today stay byte-identical and `is` comparisons keep working after a dill round trip;
 - (b) simplify keymap.__init__'s option handling (kwds.pop chains) into clearer code with identical attributes, defaults, and `_config` leftovers;
 - (a) replace crypto helper spellings by hashlib / codecs equivalents producing the same digests and strings for every algorithm / encoding accepted today (including the error behaviour for unknown names);
 - (d) cache nothing per call; but avoid a redundant copy in `__add__` / `__chain__` only if operands stay independent of the result afterwards;
 - (c) accept `alg=` as an alias of `algorithm=` (or `enc=` / `ser=`), carried through repr, copy, pickling and chaining;
 - (b) f-strings / str.format clean-ups in __repr__ with identical output.'''),
4: ('klepto/rounding.py and klepto/tools.py', '''
 - (b) rewrite the duplicated args / kwds loops of deep_round, simple_round, shallow_round as one local helper with identical results for every container type (str excluded before iterating, dict values only, tuple / list / set / frozenset rebuilt by type);
 - (b) replace `type(BaseException())`-style tricks and Python-2 `unicode = str` shims by direct spellings with identical isinstance results;
 - (a) replace tools helpers (isiterable, _b, CacheInfo construction) by stdlib spellings ONLY where equivalent (collections.abc.Iterable misses objects that iterate through __getitem__; iter(x) consumes nothing but may raise other errors);
 - (d) skip the rounding pass entirely when tol is None at decoration time (today's behaviour for tol=None must be identical, including what the function receives);
 - (c) rename a rounder option with an alias (`tol` <-> `digits`) that survives __reduce__ and the cache decorators' `tol=` plumbing;
 - (b) turn CacheInfo field access by index into field names without changing the tuple layout.'''),
5: ('klepto/_archives.py: dir_archive and file_archive (+ hdf twins for shared code)', '''
 - (a) replace pox.mkdir / pox.rmtree / pox.walk in dir_archive by os / shutil / glob equivalents keeping: the ABSOLUTE path stored as the archive location, permissions `mode`, "already exists" handling, the entry pattern (only PREFIX entries are ever listed - never staging directories or foreign files), folders-only listing, no recursion, symlink handling, ignore_errors semantics, and removal of the directory itself vs its contents;
 - (a) replace the `TEMP + hash(random(), 'md5')` staging names by uuid / secrets names that stay hidden from the lister, unique per attempt and per process (forked workers), and in the archive's own directory;
 - (b) pathlib inside dir_archive / file_archive where every string that reaches __state__, names on disk, `name` / `state` / __reduce__ output stays the same str;
 - (b) `with` blocks for every file handle, the publishing rename staying after the handle is closed;
 - (d) avoid reading an entry twice in pop / setdefault / popitem only where concurrent removal between the two reads is handled the same way;
 - (c) rename the state key / constructor option `permissions` (or `memmode`) with an alias accepted by the constructor, `state`, copy() and __reduce__ of old pickles.'''),
6: ('klepto/_archives.py: the `cache` class and the sqlite3 fallback classes sql_archive / sqltable_archive', '''
 - (d) sqlite update(): one executemany in one transaction instead of one commit per key, with identical rows afterwards (append-only history, last row wins) and identical behaviour when one value cannot be stored (what is committed, what is raised);
 - (b) f-strings for the SQL text with the table name, parameters still bound with `?` (never formatted in);
 - (b) context managers for cursors / transactions that keep explicit commits where another handle must see the write immediately;
 - (d) cache.load(): avoid `self.update({arg: value})` temporaries - only if subclass-visible behaviour (update vs __setitem__) cannot differ for the plain dict base;
 - (c) rename `cache.archived()` toggling or `cache.__swap__` with compatibility for old pickles of decorated functions (state restored through __dict__);
 - (a) replace `from pickle import PROTO, STOP` sniffing helpers or `_sqlname` parsing by urllib / stdlib equivalents with identical results for every url form accepted today (sqlite:///, relative files, ':memory:', bare names, table given or not).'''),
7: ('klepto/archives.py, klepto/_abc.py, klepto/_pickle.py', '''
 - (b) the factories' __new__ methods: clearer keyword handling (keyword-only markers, explicit defaults) with identical objects produced for every combination of name / dict / cached / extra keywords;
 - (b) _abc.archive: replace hand-written mixin methods by clearer equivalents (views, popkeys) with identical results and exceptions;
 - (a) _pickle.py: replace its private zfile helpers by zlib / io spellings producing byte-identical files and reading every file the old code wrote;
 - (d) _pickle.load: avoid reading the file twice (magic sniffing + load) only if the handle position handling stays correct for compressed, memory-mapped and plain pickles;
 - (c) deprecate a factory option spelling with a shim that warns only on the old spelling and forwards the same value;
 - (b) remove dead Python-2 branches.'''),
8: ('cross-module: klepto/__init__.py, klepto/tools.py, klepto/safe.py vs klepto/_cache.py, klepto/archives.py vs klepto/_archives.py', '''
 - (c) move a public name between modules (e.g. CacheInfo, Counter, NULL) leaving an importable alias at the old place so that old dill pickles of decorated functions and archives still load;
 - (b) lazy imports of optional dependencies (sqlalchemy / h5py / pandas) restructured with importlib.util.find_spec, selecting exactly the same class definitions as today in every installed / not installed combination;
 - (a) replace `klepto.tools` time / process helpers by stdlib ones if any are used on key or archive paths - only where results are identical;
 - (d) import-time work: defer expensive imports (dill, json, hashlib) into the functions that need them ONLY where no module-level name other code imports disappears;
 - (b) `__all__` / star-import tidy-ups with no behavioural change;
 - (c) give both decorator modules a shared deprecated-alias mechanism for one option and prove klepto.safe decorators never turn into the unsafe ones through it.'''),
}
for i, (area, themes) in AREAS.items():
    wt = '/tmp/ben9/w%d' % i
    open(wt + '/out/TASK.md', 'w').write(COMMON.replace('WT', wt).replace('THEMES', themes) + '\n\nAREA: ' + area + '\n')
print('ok')
