#!/usr/bin/env python3
"""import verified agent output <wt>/out/change<i>.diff etc. into /verif/seeded/<prop>-<i>/ (only when verify confirms)"""
import json, os, shutil, subprocess, sys
sys.path.insert(0, os.path.dirname(os.path.abspath(__file__)))
from seeded import verify
prop, wt = sys.argv[1], sys.argv[2]
offset = int(sys.argv[3]) if len(sys.argv) > 3 else 0     # round 3 seeds are numbered from 4
for i in (1, 2, 3, 4):
    d = os.path.join(wt, 'out', 'change%d.diff' % i)
    demo = os.path.join(wt, 'out', 'demo%d.py' % i)
    meta = os.path.join(wt, 'out', 'meta%d.json' % i)
    if not (os.path.exists(d) and os.path.exists(demo)):
        continue
    v = verify(d, demo)
    print(prop, i, 'confirmed' if v.get('confirmed') else 'REJECTED', json.dumps({k: v[k] for k in v if k not in ('diff', 'demo')}))
    if not v.get('confirmed'):
        continue
    dst = os.path.join('/verif/seeded', '%s-%d' % (prop, i + offset))
    os.makedirs(dst, exist_ok=True)
    shutil.copy(d, os.path.join(dst, 'patch.diff'))
    shutil.copy(demo, os.path.join(dst, 'demo.py'))
    m = {}
    if os.path.exists(meta):
        try: m = json.load(open(meta))
        except Exception: m = {'raw': open(meta).read()}
    m['property'] = prop
    m['verified_by_me'] = {'baseline_tests_passed_with_change': v['tests_passed'], 'demo_without_change': v['demo_without_change'],
                           'demo_with_change': v['demo_with_change'],
                           'ran': 'selftest/seeded.py verify: fresh scratch worktree of /repo HEAD; git apply; pytest baseline command; demo with and without the change; worktree removed'}
    json.dump(m, open(os.path.join(dst, 'meta.json'), 'w'), indent=1)
