#!/usr/bin/env python3
"""Silence set, part 2: behaviour-preserving refactorings written by independent sub-agents (selftest/benign/*.diff, each with a
note arguing equivalence).  Every check must exit 0 on /repo + diff.   usage: python3 selftest/benign.py [id ...]"""
import os
import re
import shutil
import sys
import tempfile
from concurrent.futures import ProcessPoolExecutor

HERE = os.path.dirname(os.path.abspath(__file__))
sys.path.insert(0, HERE)
from seeded import sh, ALL, VERIF, REPO


def one(i):
    root = tempfile.mkdtemp(prefix='kvbenign_')
    try:
        shutil.copytree(os.path.join(REPO, 'klepto'), os.path.join(root, 'klepto'), ignore=shutil.ignore_patterns('tests', '__pycache__'))
        rc, o = sh('patch -p1 -s < %s' % os.path.join(HERE, 'benign', i + '.diff'), cwd=root)
        if rc:
            return i, {'error': 'patch failed: ' + o[-200:]}
        res = {}
        for p in ALL:
            rc, o = sh('python3 %s/check.py %s --tier quick --repo %s' % (VERIF, p, root), cwd=VERIF, env={'KV_OUTROOT': os.path.join(root, '_out')})
            if rc == 1:
                res[p] = 'VIOLATION ' + ','.join(sorted(set(re.findall(r'^RULE (\S+) FAILED', o, re.M))))
            elif rc != 0:
                last = [l for l in o.splitlines() if 'ANALYSIS-ERROR' in l]
                res[p] = (last[-1][:220] if last else 'exit %d' % rc)
        return i, res
    finally:
        shutil.rmtree(root, ignore_errors=True)


def main():
    ids = sys.argv[1:] or sorted(f[:-5] for f in os.listdir(os.path.join(HERE, 'benign')) if f.endswith('.diff'))
    bad = 0
    with ProcessPoolExecutor(16) as ex:
        for i, res in ex.map(one, ids):
            if res:
                bad += 1
            print('%-8s %s' % (i, 'silent' if not res else res))
    print('benign refactorings: %d/%d pass every check' % (len(ids) - bad, len(ids)))
    return 1 if bad else 0


if __name__ == '__main__':
    sys.exit(main())
