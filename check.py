#!/usr/bin/env python3
"""CLI: ./check <property id> [--tier quick|thorough] [--repo /repo] [--replay file]

exit 0: property held on everything analysed (KNOWN-FINDING lines allowed)
exit 1: VIOLATION property=<id> replay=<path>
exit 2: ANALYSIS-ERROR (the analyser cannot recognise the code it must judge; never a silent pass)
"""
import argparse
import json
import os
import sys
import traceback

HERE = os.path.dirname(os.path.abspath(__file__))
sys.path.insert(0, HERE)


def main():
    ap = argparse.ArgumentParser()
    ap.add_argument('prop', nargs='?')
    ap.add_argument('--selfcheck', action='store_true')
    ap.add_argument('--tier', default=os.environ.get('VERIF_TIER', 'quick'), choices=['quick', 'thorough'])
    ap.add_argument('--repo', default=os.environ.get('KV_REPO', '/repo'))
    ap.add_argument('--replay', default=None)
    a = ap.parse_args()
    os.environ['KV_REPO'] = a.repo
    if a.selfcheck:
        from kv import checks as _c, report as _r
        _r.load_known()
        print('kv ok: %d property checks' % len(_c.CHECKS))
        return 0
    from kv.src import AnalysisError
    from kv import checks
    if a.replay:
        with open(a.replay) as f:
            rp = json.load(f)
        print('replaying rule %s on %s (%s)' % (rp.get('rule'), rp.get('construct'), rp.get('where')))
        print(rp.get('message'))
        for ln in rp.get('path', []):
            print('   ', ln)
        print('re-running the check for property %s on the current tree:' % rp.get('property', a.prop))
    if a.prop not in checks.CHECKS:
        print('ANALYSIS-ERROR unknown property %s' % a.prop)
        return 2
    try:
        return checks.run(a.prop, a.tier, a.repo)
    except AnalysisError as e:
        print('ANALYSIS-ERROR property=%s %s' % (a.prop, e))
        return 2
    except Exception:
        traceback.print_exc()
        print('ANALYSIS-ERROR property=%s internal error in the analyser' % a.prop)
        return 2


if __name__ == '__main__':
    try:
        rc = main()
    except SystemExit:
        raise
    except BaseException:      # a failure of the analyser itself (even at import time) is never reported as a violation
        traceback.print_exc()
        print('ANALYSIS-ERROR internal error in the analyser')
        rc = 2
    sys.exit(rc)
